//! C20 — `introspect-schema` sends the right request and never corrupts its output.
//!
//! Implementation under test: the binary `graphql-client` built from /repo's working tree, run as a
//! child process against a loopback mock endpoint (`mock.rs`).
//!
//! Streams (case `i` of a stream is regenerated from `(seed, stream, i)` alone):
//!   full      flag pair × output mode {stdout, existing file, new file, file in a missing directory}
//!             × bearer token × 0–3 `--header` values × server behaviour {2xx + schema JSON, 2xx + arbitrary
//!             JSON, 2xx + garbage, 4xx/5xx with JSON or text body, connection refused, connection closed
//!             before the response head / inside the body}
//!   headers   one `--header` string per run (accepted ones: several colons, spaces / tabs / Unicode
//!             white space around name and value, empty value; refused ones: no colon, empty name,
//!             white space inside the name; and strings `http` cannot carry), server answers `{}`
//! Oracles (from the property statement, evaluated on the implementation alone): see `check_case`.
//! Tie: `(parse-header ..)`, `(request ..)`, `(introspect ..)` of the Lean model `gqlmodel_cli` must
//! predict exit status, the request on the wire, the bytes of the output file and of stdout.
use crate::mock::{dead_port, Mock, Play, Recorded};
use crate::util::*;
use serde::{Deserialize, Serialize};
use serde_json::{json, Value};
use std::path::PathBuf;
use vcore::ast2sexp::{json_sexp, sexp_json};
use vcore::gen::op::{random_doc, OpKnobs};
use vcore::gen::rng::Rng;
use vcore::gen::schema::{random_schema, RenderKnobs, SchemaKnobs};
use vcore::model::Model;
use vcore::report::{Args, Report};
use vcore::sexp::{atom, boolean, list, opt_str, st, strs, tagged, Sexp};

const GRAPHQL_DIR: &str = "/repo/graphql_client_cli/src/graphql";

/// the documented table: (--is-one-of, --specify-by-url) ↦ (file, operation)
fn expected_doc(is_one_of: bool, by_url: bool) -> (&'static str, &'static str) {
    match (is_one_of, by_url) {
        (false, false) => ("introspection_query.graphql", "IntrospectionQuery"),
        (true, false) => ("introspection_query_with_is_one_of.graphql", "IntrospectionQueryWithIsOneOf"),
        (false, true) => ("introspection_query_with_specified_by.graphql", "IntrospectionQueryWithSpecifiedBy"),
        (true, true) => ("introspection_query_with_isOneOf_specifiedByUrl.graphql", "IntrospectionQueryWithIsOneOfSpecifiedByURL"),
    }
}

// ------------------------------------------------------------------------------------------------
// the header rule, written from the property statement
// ------------------------------------------------------------------------------------------------

#[derive(Debug, Clone, PartialEq)]
enum HeaderVerdict {
    Ok(String, String),
    NoColon,
    EmptyName,
    WsName,
}

impl HeaderVerdict {
    fn kind(&self) -> &'static str {
        match self {
            HeaderVerdict::Ok(..) => "ok",
            HeaderVerdict::NoColon => "no-colon",
            HeaderVerdict::EmptyName => "empty-name",
            HeaderVerdict::WsName => "ws-name",
        }
    }
}

/// "name and value split at the first colon and trimmed; inputs without a colon or with an empty or
/// whitespace-containing name are refused"
fn header_rule(s: &str) -> HeaderVerdict {
    match s.find(':') {
        None => HeaderVerdict::NoColon,
        Some(i) => {
            let name = s[..i].trim();
            let value = s[i + 1..].trim();
            if name.is_empty() {
                HeaderVerdict::EmptyName
            } else if name.chars().any(char::is_whitespace) {
                HeaderVerdict::WsName
            } else {
                HeaderVerdict::Ok(name.to_string(), value.to_string())
            }
        }
    }
}

/// can HTTP/1.1 carry this field at all (RFC 7230 token / no control characters)?
fn http_can_carry(name: &str, value: &str) -> bool {
    let tchar = |c: char| c.is_ascii_alphanumeric() || "!#$%&'*+-.^_`|~".contains(c);
    !name.is_empty() && name.chars().all(tchar) && value.chars().all(|c| c == '\t' || (c as u32 >= 32 && c as u32 != 127))
}

const NAMES: [&str; 8] = ["X-Name", "x-api-key", "X_Custom.Header", "A", "Trace-Id1", "X~t!#$%&'*+^`|", "UPPER-CASE", "x-request-id"];
const VALUES: [&str; 17] = [
    "Value", "v1:v2", "a: b :c", "", "multiple words here", "ünïcode ✓", "x=y; z", ":", "::lead", "tab\tinside", "Bearer abc.def", "trailing:",
    "\"quoted\"", "nbsp\u{a0}inside",
    // list-valued fields: the comma belongs to the value
    "alpha,beta", "a.example:8080, b.example:8080", "gzip, deflate;q=0.5,",
];
const PADS: [&str; 9] = ["", "", " ", "\t", "  ", " \t ", "\u{a0}", "\u{3000}", "\u{2003}\u{85}"];
const INNER_WS: [&str; 7] = [" ", "\t", "\u{a0}", "\u{2009}", "\u{3000}", "\u{b}", "  "];

/// (text, class the generator intends)
fn gen_header(rng: &mut Rng, class: &str) -> String {
    let pad = |rng: &mut Rng| rng.pick(&PADS).to_string();
    match class {
        "ok" => format!("{}{}{}:{}{}{}", pad(rng), rng.pick(&NAMES), pad(rng), pad(rng), rng.pick(&VALUES), pad(rng)),
        "no-colon" => match rng.below(4) {
            0 => "X-Name Value".to_string(),
            1 => String::new(),
            2 => format!("{}{}", rng.pick(&NAMES), pad(rng)),
            _ => "name=value; other".to_string(),
        },
        "empty-name" => format!("{}:{}{}", pad(rng), pad(rng), rng.pick(&VALUES)),
        "ws-name" => {
            let n = rng.range(1, 2);
            let mut name = rng.pick(&NAMES).to_string();
            for _ in 0..n {
                name.push_str(*rng.pick(&INNER_WS));
                name.push_str(*rng.pick(&["Name", "b", "x-y"]));
            }
            format!("{}{}{}:{}{}", pad(rng), name, pad(rng), pad(rng), rng.pick(&VALUES))
        }
        // passes the rule above, but is not an HTTP field
        _ => match rng.below(5) {
            0 => "X(Y): v".to_string(),
            1 => "Ünï: v".to_string(),
            2 => "X-Ctl: a\u{1}b".to_string(),
            3 => "X-Nl: a\nb".to_string(),
            _ => "X@Y:v".to_string(),
        },
    }
}

// ------------------------------------------------------------------------------------------------
// ordered JSON (member order, repeated names and number spellings are the generator's)
// ------------------------------------------------------------------------------------------------

#[derive(Clone, Debug)]
enum J {
    Null,
    Bool(bool),
    Num(String),
    Str(String),
    Arr(Vec<J>),
    Obj(Vec<(String, J)>),
}

impl J {
    fn render(&self, out: &mut String, spaced: bool) {
        match self {
            J::Null => out.push_str("null"),
            J::Bool(b) => out.push_str(if *b { "true" } else { "false" }),
            J::Num(t) => out.push_str(t),
            J::Str(s) => out.push_str(&serde_json::to_string(s).unwrap()),
            J::Arr(xs) => {
                out.push('[');
                for (i, x) in xs.iter().enumerate() {
                    if i > 0 {
                        out.push_str(if spaced { ", " } else { "," });
                    }
                    x.render(out, spaced);
                }
                out.push(']');
            }
            J::Obj(kvs) => {
                out.push('{');
                for (i, (k, v)) in kvs.iter().enumerate() {
                    if i > 0 {
                        out.push_str(if spaced { ",\n " } else { "," });
                    }
                    out.push_str(&serde_json::to_string(k).unwrap());
                    out.push_str(if spaced { " : " } else { ":" });
                    v.render(out, spaced);
                }
                out.push('}');
            }
        }
    }
    /// for the model: member order and repetitions kept, numbers in serde_json's spelling
    fn to_sexp(&self) -> Sexp {
        match self {
            J::Null => tagged("null", vec![]),
            J::Bool(b) => tagged("bool", vec![boolean(*b)]),
            J::Num(t) => json_sexp(&serde_json::from_str::<Value>(t).expect("generated number")),
            J::Str(s) => tagged("str", vec![st(s)]),
            J::Arr(xs) => tagged("arr", xs.iter().map(|x| x.to_sexp()).collect()),
            J::Obj(kvs) => tagged("obj", kvs.iter().map(|(k, v)| list(vec![st(k), v.to_sexp()])).collect()),
        }
    }
}

const J_STRINGS: [&str; 12] = [
    "", "plain", "with \"quotes\" and \\ backslash", "line\nbreak\ttab\r", "ctl \u{1}\u{8}\u{c}\u{1f} \u{7f}", "ünïcödé ✓ 日本語", "emoji 🦀", "/slash/",
    "\u{2028}\u{2029}", "<html>&amp;</html>", "null", " spaced ",
];
const J_KEYS: [&str; 15] = ["data", "a", "b", "ab", "aB", "B", "zeta", "__schema", "ünï", "", "a b", "10", "errors", "extensions", "errors"];
const J_NUMS: [&str; 16] = [
    "0", "-1", "42", "9223372036854775807", "-9223372036854775808", "18446744073709551615", "1.5", "-0.0", "1e3", "1E-7", "3.141592653589793", "1e21",
    "123456789012345680000", "0.1", "2.50", "-1.0e+2",
];

fn gen_j(rng: &mut Rng, depth: usize) -> J {
    let leaf = depth == 0 || rng.chance(35);
    if leaf {
        match rng.below(5) {
            0 => J::Null,
            1 => J::Bool(rng.chance(50)),
            2 => J::Num(rng.pick(&J_NUMS).to_string()),
            _ => J::Str(rng.pick(&J_STRINGS).to_string()),
        }
    } else if rng.chance(45) {
        let n = rng.below(4);
        J::Arr((0..n).map(|_| gen_j(rng, depth - 1)).collect())
    } else {
        let n = rng.below(5);
        J::Obj((0..n).map(|_| (rng.pick(&J_KEYS).to_string(), gen_j(rng, depth - 1))).collect())
    }
}

// ------------------------------------------------------------------------------------------------
// cases
// ------------------------------------------------------------------------------------------------

#[derive(Serialize, Deserialize, Clone, Debug)]
enum OutputMode {
    Stdout,
    /// the `--output` file exists with this content
    Seeded(String),
    /// it does not exist yet
    Fresh,
    /// it lies in a directory that does not exist (cannot be created)
    MissingDir,
}

#[derive(Serialize, Deserialize, Clone, Debug)]
enum Beh {
    /// 2xx + the introspection JSON of a generated schema (`sdl` = the same schema as SDL, `query` = a document for it)
    SchemaJson { code: u16, text: String, sdl: String, query: String },
    /// 2xx + some JSON text; `model` = the value as an S-expression (member order kept)
    AnyJson { code: u16, text: String, model: String },
    Garbage { text: String },
    Status { code: u16, body: String, json: bool },
    Refused,
    CutBeforeHead { partial: String },
    CutInBody { body: String, sent: usize },
}

impl Beh {
    fn kind(&self) -> &'static str {
        match self {
            Beh::SchemaJson { .. } => "2xx+schema-json",
            Beh::AnyJson { .. } => "2xx+json",
            Beh::Garbage { .. } => "2xx+garbage",
            Beh::Status { code, .. } if *code < 400 => "3xx",
            Beh::Status { code, json, .. } => match (*code >= 500, *json) {
                (false, true) => "4xx+json",
                (false, false) => "4xx+text",
                (true, true) => "5xx+json",
                (true, false) => "5xx+text",
            },
            Beh::Refused => "refused",
            Beh::CutBeforeHead { .. } => "cut-before-head",
            Beh::CutInBody { .. } => "cut-in-body",
        }
    }
    fn success(&self) -> bool {
        matches!(self, Beh::SchemaJson { .. } | Beh::AnyJson { .. })
    }
}

#[derive(Serialize, Deserialize, Clone, Debug)]
struct Case {
    is_one_of: bool,
    specify_by_url: bool,
    output: OutputMode,
    authorization: Option<String>,
    headers: Vec<String>,
    url_path: String,
    behaviour: Beh,
}

const SEEDS: [&str; 4] = ["{\n  \"old\": \"schema\"\n}", "", "not json at all \u{1}\n\n", "[1,2,3]"];
const TOKENS: [&str; 6] = ["tok", "abc.DEF-123_xyz=", "with space", "ünï-tok", "a:b", "eyJhbGciOiJIUzI1NiJ9.e30.x"];

fn gen_schema_beh(rng: &mut Rng) -> Beh {
    let schema = random_schema(rng, &SchemaKnobs::default());
    let knobs = RenderKnobs {
        explicit_schema_block: rng.chance(50),
        use_extend: false,
        json_builtins: rng.chance(70),
        json_wrapped: rng.chance(60),
        json_is_one_of: true,
        json_directives: rng.chance(70),
        // a full response with `errors: null` and `extensions` next to `data`
        json_response_members: rng.chance(40),
        ..RenderKnobs::default()
    };
    let v = schema.to_json(&knobs);
    let text = if rng.chance(50) { serde_json::to_string(&v).unwrap() } else { serde_json::to_string_pretty(&v).unwrap() };
    let doc = random_doc(rng, &schema, &OpKnobs::default());
    Beh::SchemaJson { code: if rng.chance(85) { 200 } else { 201 }, text, sdl: schema.to_sdl(&knobs), query: doc.render() }
}

const BEHAVIOUR_CYCLE: [&str; 13] = [
    "schema", "json", "garbage", "4xx-json", "schema", "4xx-text", "5xx-json", "refused", "schema", "5xx-text", "cut-head", "cut-body", "3xx-json",
];

fn gen_behaviour(rng: &mut Rng, class: &str) -> Beh {
    match class {
        "schema" => gen_schema_beh(rng),
        "json" => {
            let j = gen_j(rng, 3);
            let mut text = String::new();
            j.render(&mut text, rng.chance(50));
            if rng.chance(20) {
                text = format!(" \n{}\n", text);
            }
            Beh::AnyJson { code: 200, text, model: j.to_sexp().render() }
        }
        "garbage" => {
            let g = ["", "<html><body>502</body></html>", "{\"data\": {\"__schema\": ", "{} trailing", "undefined", "{'single': 1}", "\u{feff}{}x", "[1,2,", INVALID_UTF8_MARKER];
            Beh::Garbage { text: rng.pick(&g).to_string() }
        }
        "3xx-json" | "4xx-json" | "4xx-text" | "5xx-json" | "5xx-text" => {
            // (3xx: replies the client cannot follow - no Location header - are non-2xx replies like any other)
            let code = if class.starts_with('3') { *rng.pick(&[300u16, 301, 302, 305]) } else if class.starts_with('4') { *rng.pick(&[400u16, 401, 403, 404, 418, 422, 429]) } else { *rng.pick(&[500u16, 500, 502, 503]) };
            let json = class.ends_with("json");
            let body = if json {
                rng.pick(&["{\"errors\":[{\"message\":\"introspection is disabled\"}]}", "{}", "{\"data\":{\"__schema\":{\"types\":[]}}}", "null"]).to_string()
            } else {
                rng.pick(&["Forbidden", "", "<h1>Bad gateway</h1>", "rate limited\n"]).to_string()
            };
            Beh::Status { code, body, json }
        }
        "refused" => Beh::Refused,
        "cut-head" => Beh::CutBeforeHead {
            partial: rng.pick(&["", "HTTP/1.1 200 O", "HTTP/1.1 200 OK\r\ncontent-type: application/json\r\ncontent-len"]).to_string(),
        },
        _ => {
            let body = match gen_schema_beh(rng) {
                Beh::SchemaJson { text, .. } => text,
                _ => unreachable!(),
            };
            let sent = match rng.below(3) {
                0 => 0,
                1 => body.len() / 2,
                _ => body.len() - 1,
            };
            let mut s = sent;
            while !body.is_char_boundary(s) {
                s -= 1;
            }
            Beh::CutInBody { body, sent: s }
        }
    }
}

fn gen_output(rng: &mut Rng) -> OutputMode {
    match rng.below(10) {
        0..=2 => OutputMode::Stdout,
        3..=6 => OutputMode::Seeded(rng.pick(&SEEDS).to_string()),
        7..=8 => OutputMode::Fresh,
        _ => OutputMode::MissingDir,
    }
}

fn gen_full(rng: &mut Rng, index: u64) -> Case {
    // the flag pair and the behaviour class cycle so that every combination occurs early
    let flags = index % 4;
    let mut headers = Vec::new();
    let n = rng.below(4);
    for _ in 0..n {
        headers.push(gen_header(rng, "ok"));
    }
    // now and then one of the values is one clap must refuse, or one HTTP cannot carry
    let r = rng.below(100);
    if r < 12 {
        let class = *rng.pick(&["no-colon", "empty-name", "ws-name"]);
        let pos = rng.below(headers.len() + 1);
        headers.insert(pos, gen_header(rng, class));
    } else if r < 16 {
        headers.push(gen_header(rng, "http-invalid"));
    }
    let authorization = if rng.chance(50) { Some(rng.pick(&TOKENS).to_string()) } else { None };
    let authorization = if rng.chance(3) { Some("bad\ntoken".to_string()) } else { authorization };
    Case {
        is_one_of: flags & 1 == 1,
        specify_by_url: flags & 2 == 2,
        output: gen_output(rng),
        authorization,
        headers,
        url_path: rng.pick(&["/graphql", "/", "/api/v1/graphql?x=1"]).to_string(),
        behaviour: gen_behaviour(rng, BEHAVIOUR_CYCLE[((index / 4) % 13) as usize]),
    }
}

const HEADER_CLASSES: [&str; 8] = ["ok", "ok", "ok", "ok", "no-colon", "empty-name", "ws-name", "http-invalid"];

fn gen_header_case(rng: &mut Rng, index: u64) -> Case {
    let class = HEADER_CLASSES[(index % 8) as usize];
    Case {
        is_one_of: rng.chance(50),
        specify_by_url: rng.chance(50),
        output: OutputMode::Stdout,
        authorization: None,
        headers: vec![gen_header(rng, class)],
        url_path: "/graphql".into(),
        behaviour: Beh::AnyJson { code: 200, text: "{}".into(), model: "(obj)".into() },
    }
}

// ------------------------------------------------------------------------------------------------
// running one case
// ------------------------------------------------------------------------------------------------

#[derive(Deserialize)]
#[serde(deny_unknown_fields)]
#[allow(dead_code)]
struct WireBody {
    variables: Value,
    query: String,
    #[serde(rename = "operationName")]
    operation_name: String,
}

struct Ctx {
    rep: Report,
    model: Model,
    mock: Mock,
    work: PathBuf,
    n: u64,
}

fn model_behaviour(b: &Beh) -> Result<Sexp, String> {
    Ok(match b {
        Beh::SchemaJson { text, .. } => {
            let v: Value = serde_json::from_str(text).map_err(|e| e.to_string())?;
            tagged("ok200json", vec![json_sexp(&v)])
        }
        Beh::AnyJson { model, .. } => tagged("ok200json", vec![Sexp::parse(model).ok_or("unreadable stored model value")?]),
        Beh::Garbage { .. } => tagged("ok200garbage", vec![]),
        Beh::Status { code, body, .. } => tagged(if *code >= 500 { "status5xx" } else { "status4xx" }, vec![st(body)]),
        Beh::Refused => tagged("refused", vec![]),
        Beh::CutBeforeHead { .. } => tagged("cut", vec![boolean(false)]),
        Beh::CutInBody { .. } => tagged("cut", vec![boolean(true)]),
    })
}

/// marker text of the garbage behaviour whose body is JSON-shaped but not valid UTF-8
const INVALID_UTF8_MARKER: &str = "<<json with invalid utf-8 inside a string>>";

fn play_of(b: &Beh) -> Option<Play> {
    let ct = "application/json".to_string();
    Some(match b {
        Beh::SchemaJson { code, text, .. } | Beh::AnyJson { code, text, .. } => {
            // JSON is UTF-8 whatever a `charset` parameter claims (RFC 8259): the label must not change what is written
            let labels = ["application/json", "application/json; charset=utf-8", "application/json; charset=ISO-8859-1", "application/graphql-response+json; charset=windows-1252"];
            let label = labels[(vcore::report::hash_str(text) % labels.len() as u64) as usize].to_string();
            Play::Reply { code: *code, content_type: label, body: text.clone().into_bytes() }
        }
        Beh::Garbage { text } if text == INVALID_UTF8_MARKER => Play::Reply { code: 200, content_type: ct, body: b"{\"data\":{\"name\":\"caf\xe9 \xff\xfe\"}}".to_vec() },
        Beh::Garbage { text } => Play::Reply { code: 200, content_type: ct, body: text.clone().into_bytes() },
        Beh::Status { code, body, json } => Play::Reply {
            code: *code,
            content_type: if *json { ct } else { "text/plain".into() },
            body: body.clone().into_bytes(),
        },
        Beh::Refused => return None,
        Beh::CutBeforeHead { partial } => Play::CutBeforeHead { partial: partial.clone().into_bytes() },
        Beh::CutInBody { body, sent } => Play::CutInBody { content_type: ct, body: body.clone().into_bytes(), sent: *sent },
    })
}

impl Ctx {
    fn run_case(&mut self, stream: &str, index: u64, case: &Case) {
        self.n += 1;
        let dir = self.work.join(format!("c20-{}", self.n));
        std::fs::create_dir_all(&dir).unwrap();
        let info = |extra: Value| {
            let mut v = json!({"stream": stream, "index": index, "case": case});
            if let (Some(o), Some(e)) = (v.as_object_mut(), extra.as_object()) {
                for (k, x) in e {
                    o.insert(k.clone(), x.clone());
                }
            }
            v
        };

        // ---- distribution ----------------------------------------------------------------------
        let verdicts: Vec<HeaderVerdict> = case.headers.iter().map(|h| header_rule(h)).collect();
        let refused_header = verdicts.iter().any(|v| !matches!(v, HeaderVerdict::Ok(..)));
        let uncarriable = !refused_header
            && (verdicts.iter().any(|v| matches!(v, HeaderVerdict::Ok(n, val) if !http_can_carry(n, val)))
                || case.authorization.as_deref().map(|t| !http_can_carry("authorization", t)).unwrap_or(false));
        self.rep.count(&format!("stream:{}", stream));
        self.rep.count(&format!("behaviour:{}", case.behaviour.kind()));
        self.rep.count(&format!("flags:is-one-of={},specify-by-url={}", case.is_one_of, case.specify_by_url));
        self.rep.count(match &case.output {
            OutputMode::Stdout => "output:stdout",
            OutputMode::Seeded(_) => "output:existing-file",
            OutputMode::Fresh => "output:new-file",
            OutputMode::MissingDir => "output:file-in-missing-directory",
        });
        self.rep.count(if case.authorization.is_some() { "authorization:bearer" } else { "authorization:none" });
        self.rep.count(&format!("headers:{}", case.headers.len()));
        for v in &verdicts {
            self.rep.count(&format!("header-class:{}", v.kind()));
        }
        if uncarriable {
            self.rep.count("header-class:not-an-http-field");
        }

        // ---- arguments ------------------------------------------------------------------------
        let port = match play_of(&case.behaviour) {
            Some(p) => {
                self.mock.arm(p);
                self.mock.port
            }
            None => {
                self.mock.arm(Play::CutBeforeHead { partial: vec![] });
                dead_port()
            }
        };
        let url = format!("http://127.0.0.1:{}{}", port, case.url_path);
        let out_path = match &case.output {
            OutputMode::Stdout => None,
            OutputMode::Seeded(c) => {
                let p = dir.join("schema.json");
                std::fs::write(&p, c).unwrap();
                Some(p)
            }
            OutputMode::Fresh => Some(dir.join("schema.json")),
            OutputMode::MissingDir => Some(dir.join("no-such-dir").join("schema.json")),
        };
        let mut args: Vec<String> = vec!["introspect-schema".into(), url.clone()];
        if case.is_one_of {
            args.push("--is-one-of".into());
        }
        if case.specify_by_url {
            args.push("--specify-by-url".into());
        }
        if let Some(p) = &out_path {
            args.push("--output".into());
            args.push(p.to_string_lossy().into_owned());
        }
        if let Some(t) = &case.authorization {
            args.push(format!("--authorization={}", t));
        }
        for h in &case.headers {
            args.push(format!("--header={}", h));
        }
        let before = snapshot(&dir);

        // ---- (a) the implementation --------------------------------------------------------------
        let run = run_cli(&args, &dir);
        let requests: Vec<Recorded> = self.mock.take();
        let after = snapshot(&dir);
        let file_after: Option<Vec<u8>> = out_path.as_ref().and_then(|p| std::fs::read(p).ok());
        let file_before: Option<Vec<u8>> = match &case.output {
            OutputMode::Seeded(c) => Some(c.clone().into_bytes()),
            _ => None,
        };
        let code = match run.code {
            Some(c) => c,
            None => {
                if run.timed_out {
                    // the command neither finished nor failed: no generated file, no error message
                    self.rep.fail("command-does-not-terminate", info(json!({"args": args.iter().map(|a| short(a, 100)).collect::<Vec<_>>(), "observed": run.stderr_tail()})));
                } else {
                    self.rep.internal.push(format!("the binary could not be run / was killed: {}", run.stderr_tail()));
                }
                return;
            }
        };
        let obs = json!({"exit": code, "requests": requests.len(), "stderr": run.stderr_tail(),
                          "stdout": short(&String::from_utf8_lossy(&run.stdout), 200),
                          "file_after": file_after.as_ref().map(|b| short(&String::from_utf8_lossy(b), 200))});

        // ---- (c) the property, on the implementation alone ----------------------------------------------
        let oracle_ok = std::cell::Cell::new(true);
        let mut fail = |rep: &mut Report, class: &str, why: &str| {
            oracle_ok.set(false);
            rep.fail(class, info(json!({"why": why, "observed": obs})));
        };
        let success_expected = !refused_header && !uncarriable && case.behaviour.success() && !matches!(case.output, OutputMode::MissingDir);
        let nontrivial;
        if refused_header {
            nontrivial = true;
            // refused input: non-zero exit, nothing sent, nothing touched
            if code == 0 {
                fail(&mut self.rep, "refused-header-accepted", "a --header value the rule refuses was accepted (exit 0)");
            }
            if !requests.is_empty() {
                fail(&mut self.rep, "refused-header-request-sent", "a request was sent although a --header value must be refused");
            }
        } else if uncarriable {
            nontrivial = false;
            // outside the property (HTTP cannot carry the field): only the failure clause applies
            if code == 0 && requests.iter().all(|r| !r.complete) {
                fail(&mut self.rep, "success-without-request", "exit 0 but no request reached the endpoint");
            }
        } else {
            nontrivial = true;
            let expect_request = !matches!(case.behaviour, Beh::Refused);
            if expect_request {
                if requests.len() != 1 {
                    fail(&mut self.rep, "request-count", &format!("expected exactly one request, the endpoint saw {}", requests.len()));
                }
                if let Some(r) = requests.first() {
                    self.check_request(case, r, &verdicts, &mut fail);
                }
            } else if !requests.is_empty() {
                fail(&mut self.rep, "request-count", "a request reached the mock endpoint although the URL pointed at a dead port");
            }
        }
        if success_expected {
            if code != 0 {
                fail(&mut self.rep, "success-expected", "2xx reply with a JSON body, but the exit status is not 0");
            } else {
                let served_text = match &case.behaviour {
                    Beh::SchemaJson { text, .. } | Beh::AnyJson { text, .. } => text,
                    _ => unreachable!(),
                };
                let served: Value = serde_json::from_str(served_text).expect("served JSON");
                let written: &[u8] = match &case.output {
                    OutputMode::Stdout => &run.stdout,
                    _ => file_after.as_deref().unwrap_or(b""),
                };
                match serde_json::from_slice::<Value>(written) {
                    Ok(v) if same_json(&v, &served) => {}
                    Ok(_) => fail(&mut self.rep, "json-changed", "the JSON written differs (as a value) from the JSON served"),
                    Err(e) => fail(&mut self.rep, "json-changed", &format!("what was written is not JSON: {}", e)),
                }
                if out_path.is_some() && !run.stdout.is_empty() {
                    fail(&mut self.rep, "stdout-with-output", "--output was given but something was printed to stdout");
                }
                if let Beh::SchemaJson { sdl, query, .. } = &case.behaviour {
                    if let Some(why) = self.codegen_differs(&dir, written, served_text, sdl, query) {
                        fail(&mut self.rep, "codegen-differs", &why);
                    }
                }
            }
        } else {
            if code == 0 {
                fail(&mut self.rep, "failure-exit-zero", "the introspection cannot have succeeded, but the exit status is 0");
            }
            if file_after != file_before {
                let why = match (&file_before, &file_after) {
                    (Some(_), Some(a)) => format!("the existing output file was modified (now {} bytes)", a.len()),
                    (Some(_), None) => "the existing output file was deleted".to_string(),
                    (None, _) => "an output file was created although the introspection failed".to_string(),
                };
                fail(&mut self.rep, "output-file-corrupted", &why);
            }
        }
        // nothing but the output file may change
        let expected_changed: Vec<String> = if success_expected && out_path.is_some() && file_after != file_before { vec!["schema.json".to_string()] } else { vec![] };
        let ch = changed(&before, &after);
        if oracle_ok.get() && ch != expected_changed {
            fail(&mut self.rep, "other-files-written", &format!("files changed: {:?}, expected {:?}", ch, expected_changed));
        }

        // ---- (b) the model -----------------------------------------------------------------------
        let agree = std::cell::Cell::new(true);
        let disagree = |rep: &mut Report, what: &str, model: String, implementation: String| {
            agree.set(false);
            rep.disagree(info(json!({"what": what, "model": model, "implementation": implementation})));
        };
        let mut have_model = true;
        for (h, v) in case.headers.iter().zip(&verdicts) {
            let reply = self.model.ask(&tagged("parse-header", vec![st(h)]));
            match reply.head() {
                Some("nomodel") => have_model = false,
                Some("ok") => {
                    let m = (reply.items()[1].as_str().unwrap_or("").to_string(), reply.items()[2].as_str().unwrap_or("").to_string());
                    if *v != HeaderVerdict::Ok(m.0.clone(), m.1.clone()) {
                        // the specification of the rule (Rust, here) and the model disagree: a harness/model bug, not the code's
                        self.rep.internal.push(format!("header rule and model disagree on {:?}: {:?} vs {}", h, v, reply.short(120)));
                    }
                }
                Some("err") => {
                    if reply.items()[1].as_str() != Some(v.kind()) {
                        self.rep.internal.push(format!("header rule and model disagree on {:?}: {:?} vs {}", h, v, reply.short(120)));
                    }
                }
                _ => self.rep.internal.push(format!("model reply to parse-header: {}", reply.short(200))),
            }
        }
        if have_model {
            // ONE request: the model's composed `introspectMain` (argv-level headers -> request -> reply handling), the
            // function the theorems of Proofs/C20Composed.lean are about
            let beh_sexp = match model_behaviour(&case.behaviour) {
                Err(e) => {
                    self.rep.internal.push(format!("cannot encode the behaviour for the model: {}", e));
                    return;
                }
                Ok(b) => b,
            };
            let file_before_s = file_before.as_ref().map(|b| String::from_utf8_lossy(b).into_owned());
            let run_reply = self.model.ask(&tagged(
                "introspect-main",
                vec![
                    st(&url),
                    strs(case.headers.iter()),
                    opt_str(case.authorization.as_deref()),
                    boolean(case.is_one_of),
                    boolean(case.specify_by_url),
                    beh_sexp,
                    boolean(out_path.is_some()),
                    boolean(!matches!(case.output, OutputMode::MissingDir)),
                    opt_str(file_before_s.as_deref()),
                    st(""),
                ],
            ));
            if run_reply.head() != Some("run") {
                self.rep.internal.push(format!("model reply to introspect-main: {}", run_reply.short(200)));
                return;
            }
            let it = run_reply.items();
            let model_exit: i64 = it[2].as_str().and_then(|s| s.parse().ok()).unwrap_or(-1);
            let req = it[3].clone();
            let model_file = it[4].items().first().and_then(|s| s.as_str()).map(|s| s.to_string());
            let model_stdout = it[5].as_str().unwrap_or("").to_string();
            match req.head() {
                Some("none") => {
                    if !requests.is_empty() {
                        disagree(&mut self.rep, "request", format!("none ({})", it[1].short(120)), format!("{} request(s)", requests.len()));
                    }
                }
                Some("request") => {
                    if !matches!(case.behaviour, Beh::Refused) {
                        match requests.first() {
                            None => disagree(&mut self.rep, "request", req.short(300), "no request".into()),
                            Some(r) => {
                                if let Some(d) = diff_request(&req, r, &case.url_path) {
                                    disagree(&mut self.rep, "request", d, "see model".into());
                                }
                                if requests.len() > 1 {
                                    disagree(&mut self.rep, "request", "exactly one request".into(), format!("{} requests", requests.len()));
                                }
                            }
                        }
                    }
                }
                _ => {
                    self.rep.internal.push(format!("model reply to introspect-main (request part): {}", req.short(200)));
                    return;
                }
            }
            if model_exit != code as i64 {
                disagree(&mut self.rep, "exit status", model_exit.to_string(), code.to_string());
            }
            let impl_file = file_after.as_ref().map(|b| String::from_utf8_lossy(b).into_owned());
            if model_file != impl_file {
                disagree(
                    &mut self.rep,
                    "output file",
                    format!("{:?}", model_file.as_deref().map(|s| short(s, 300))),
                    format!("{:?}", impl_file.as_deref().map(|s| short(s, 300))),
                );
            }
            let impl_stdout = String::from_utf8_lossy(&run.stdout).into_owned();
            if model_stdout != impl_stdout {
                disagree(&mut self.rep, "stdout", short(&model_stdout, 300), short(&impl_stdout, 300));
            }
            if agree.get() {
                self.rep.traces_validated += 1;
            }
        }

        let key = format!("{}|{}", stream, index);
        self.rep.case(if nontrivial { Some(&key) } else { None });
        if self.rep.samples.len() < 5 && (index % 7 == 3) {
            self.rep.sample(json!({"stream": stream, "index": index, "args": args.iter().map(|a| short(a, 120)).collect::<Vec<_>>(),
                "behaviour": case.behaviour.kind(), "exit": code, "requests": requests.len(),
                "request_headers": requests.first().map(|r| r.headers.clone())}));
        }
        let _ = std::fs::remove_dir_all(&dir);
    }

    /// the request on the wire against the statement
    fn check_request(&mut self, case: &Case, r: &Recorded, verdicts: &[HeaderVerdict], fail: &mut dyn FnMut(&mut Report, &str, &str)) {
        if r.method != "POST" {
            fail(&mut self.rep, "request-method", &format!("method {} instead of POST", r.method));
        }
        if r.path != case.url_path {
            fail(&mut self.rep, "request-path", &format!("path {:?} instead of {:?}", r.path, case.url_path));
        }
        if !r.complete {
            fail(&mut self.rep, "request-incomplete", "the body is shorter than the announced content-length");
            return;
        }
        let (file, op) = expected_doc(case.is_one_of, case.specify_by_url);
        let text = match std::fs::read_to_string(format!("{}/{}", GRAPHQL_DIR, file)) {
            Ok(t) => t,
            Err(e) => {
                fail(&mut self.rep, "document-file-missing", &format!("{}: {}", file, e));
                return;
            }
        };
        match serde_json::from_slice::<WireBody>(&r.body) {
            Err(e) => fail(&mut self.rep, "request-body-members", &format!("the body is not exactly {{variables, query, operationName}}: {}", e)),
            Ok(b) => {
                if b.query != text {
                    fail(&mut self.rep, "wrong-document", &format!("the query sent is not the text of {}", file));
                }
                if b.operation_name != op {
                    fail(&mut self.rep, "wrong-operation-name", &format!("operationName {:?}, expected {:?}", b.operation_name, op));
                }
                // the operation name must name an operation of the document that was sent
                match graphql_parser::parse_query::<String>(&b.query) {
                    Err(e) => fail(&mut self.rep, "wrong-document", &format!("the query sent does not parse: {}", e)),
                    Ok(doc) => {
                        use graphql_parser::query::{Definition, OperationDefinition};
                        let names: Vec<Option<String>> = doc
                            .definitions
                            .iter()
                            .filter_map(|d| match d {
                                Definition::Operation(OperationDefinition::Query(q)) => Some(q.name.clone()),
                                Definition::Operation(OperationDefinition::Mutation(q)) => Some(q.name.clone()),
                                Definition::Operation(OperationDefinition::Subscription(q)) => Some(q.name.clone()),
                                Definition::Operation(OperationDefinition::SelectionSet(_)) => Some(None),
                                _ => None,
                            })
                            .collect();
                        if names != vec![Some(b.operation_name.clone())] {
                            fail(&mut self.rep, "operation-name-mismatch", &format!("operationName {:?}, the document defines {:?}", b.operation_name, names));
                        }
                        let has = |w: &str| b.query.contains(w);
                        if has("isOneOf") != case.is_one_of || has("specifiedByURL") != case.specify_by_url {
                            fail(&mut self.rep, "wrong-document", "the document asks for isOneOf / specifiedByURL against the flags");
                        }
                    }
                }
                // (the introspection documents declare no variables: `null` and `{}` say the same)
                if !(b.variables.is_null() || b.variables.as_object().map(|m| m.is_empty()).unwrap_or(false)) {
                    fail(&mut self.rep, "request-body-members", "variables carries values although the document declares none");
                }
            }
        }
        // headers: every --header with the trimmed name / value; the bearer token
        let mut pool: Vec<(String, String)> = r.headers.clone();
        for v in verdicts {
            if let HeaderVerdict::Ok(n, val) = v {
                match pool.iter().position(|(hn, hv)| *hn == n.to_ascii_lowercase() && hv == val) {
                    Some(i) => {
                        pool.remove(i);
                    }
                    None => fail(&mut self.rep, "header-missing", &format!("header {:?}: {:?} is not on the wire (received {:?})", n, val, r.headers)),
                }
            }
        }
        let auth: Vec<&(String, String)> = pool.iter().filter(|(n, _)| n == "authorization").collect();
        match &case.authorization {
            Some(t) => {
                if auth.len() != 1 || auth[0].1 != format!("Bearer {}", t) {
                    fail(&mut self.rep, "bearer-missing", &format!("expected `authorization: Bearer {}`, received {:?}", t, auth));
                }
            }
            None => {
                if !auth.is_empty() {
                    fail(&mut self.rep, "bearer-unexpected", &format!("unexpected authorization header {:?}", auth));
                }
            }
        }
        // (the media type; parameters such as `; charset=utf-8` would say the same)
        if !pool.iter().any(|(n, v)| n == "content-type" && v.split(';').next().map(|m| m.trim().eq_ignore_ascii_case("application/json")).unwrap_or(false)) {
            fail(&mut self.rep, "content-type", "no `content-type: application/json`");
        }
    }

    /// "that file generates the same code as the server's SDL": the file the tool wrote (as `.json`)
    /// and the SDL rendering of the same schema (as `.graphql`) through the library, one document.
    fn codegen_differs(&mut self, dir: &std::path::Path, written: &[u8], served: &str, sdl: &str, query: &str) -> Option<String> {
        use vcore::common::{run_real, Opts, RealOutcome};
        let id = self.n;
        let pj = dir.join(format!("written{}.json", id));
        let ps = dir.join(format!("served{}.graphql", id));
        let pv = dir.join(format!("served{}.json", id));
        std::fs::write(&pj, written).unwrap();
        std::fs::write(&ps, sdl).unwrap();
        std::fs::write(&pv, served).unwrap();
        let opts = Opts::harness();
        let a = run_real(&pj, query, &opts);
        let b = run_real(&ps, query, &opts);
        let c = run_real(&pv, query, &opts);
        for p in [&pj, &ps, &pv] {
            let _ = std::fs::remove_file(p);
        }
        self.rep.count(&format!("codegen-compared:{}", a.kind()));
        if a == b {
            return None;
        }
        // error texts mention nothing path-specific, but compare kinds only when both fail
        if !matches!(a, RealOutcome::Ok(_)) && a.kind() == b.kind() {
            return None;
        }
        if a == c {
            // the tool did not change anything: the served JSON itself and the SDL generate different code (C07's subject)
            self.rep.count("codegen-sdl-vs-json-differs-independently-of-the-tool");
            return None;
        }
        Some(format!("library output for the written file: {} / for the SDL: {}", short(&format!("{:?}", a), 300), short(&format!("{:?}", b), 300)))
    }
}

/// equality of JSON values; numbers that are not 64-bit integers are never compared exactly
/// (serde_json without `float_roundtrip` may move a float by one ulp per parse)
fn same_json(a: &Value, b: &Value) -> bool {
    match (a, b) {
        (Value::Number(x), Value::Number(y)) => {
            if (x.is_i64() || x.is_u64()) && (y.is_i64() || y.is_u64()) {
                x == y
            } else {
                match (x.as_f64(), y.as_f64()) {
                    (Some(p), Some(q)) => p == q || ((p - q).abs() <= 1e-12 * p.abs().max(q.abs())),
                    _ => false,
                }
            }
        }
        (Value::Array(x), Value::Array(y)) => x.len() == y.len() && x.iter().zip(y).all(|(p, q)| same_json(p, q)),
        (Value::Object(x), Value::Object(y)) => x.len() == y.len() && x.iter().all(|(k, p)| y.get(k).map(|q| same_json(p, q)).unwrap_or(false)),
        _ => a == b,
    }
}

/// compare the model's request with the recorded one; `None` = same
fn diff_request(model: &Sexp, r: &Recorded, url_path: &str) -> Option<String> {
    let it = model.items();
    if it.len() != 5 {
        return Some(format!("unreadable model request {}", model.short(200)));
    }
    if it[1].as_str() != Some(r.method.as_str()) {
        return Some(format!("method: model {:?}", it[1]));
    }
    if !it[2].as_str().unwrap_or("").ends_with(url_path) {
        return Some(format!("url: model {:?}", it[2]));
    }
    let mut mh: Vec<(String, String)> = it[3].items().iter().map(|p| (p.items()[0].as_str().unwrap_or("").to_string(), p.items()[1].as_str().unwrap_or("").to_string())).collect();
    let mut ih: Vec<(String, String)> = r.headers.iter().filter(|(n, _)| n != "host" && n != "content-length").cloned().collect();
    mh.sort();
    ih.sort();
    if mh != ih {
        return Some(format!("headers: model {:?} / implementation {:?}", mh, ih));
    }
    let mb = sexp_json(&it[4]);
    let ib: Option<Value> = serde_json::from_slice(&r.body).ok();
    if mb.is_none() || mb != ib {
        return Some(format!("body: model {} / implementation {}", it[4].short(200), short(&String::from_utf8_lossy(&r.body), 200)));
    }
    None
}

/// the flag table and the document facts, once per run, against the model
fn check_doc_table(ctx: &mut Ctx) {
    for (o, u) in [(false, false), (true, false), (false, true), (true, true)] {
        let (file, op) = expected_doc(o, u);
        let reply = ctx.model.ask(&tagged("select-doc", vec![boolean(o), boolean(u)]));
        if reply.head() == Some("nomodel") {
            return;
        }
        let text = std::fs::read_to_string(format!("{}/{}", GRAPHQL_DIR, file)).unwrap_or_default();
        let it = reply.items();
        if reply.head() != Some("doc") || it[1].as_str() != Some(op) || it[2].as_str() != Some(file) || it[3].as_str() != Some(text.as_str()) {
            ctx.rep.disagree(json!({"what": "select-doc", "flags": [o, u], "expected": [op, file], "model": reply.short(200)}));
        } else {
            ctx.rep.traces_validated += 1;
        }
    }
    let _ = atom("");
}

pub fn run(a: &Args) -> i32 {
    let mut ctx = Ctx {
        rep: Report::new(
            "C20",
            a,
            "a case is one run of the built `graphql-client introspect-schema` against the loopback mock endpoint: flag pair x output mode x bearer x --header values x server behaviour (stream `full`), or one --header string (stream `headers`); every case checks the request on the wire, the exit status, stdout and the --output file. Non-trivial = the case is inside the property (all but the few runs whose header cannot be carried by HTTP at all); keys are (stream, index).",
        ),
        model: Model::spawn(),
        mock: Mock::start(),
        work: vcore::common::work_dir(),
        n: 0,
    };
    if !cli_binary().exists() {
        ctx.rep.internal.push(format!("the binary under test is missing: {}", cli_binary().display()));
        return ctx.rep.finish();
    }
    vcore::common::quiet_panics();
    if let Some(path) = &a.replay {
        let v: Value = std::fs::read_to_string(path).ok().and_then(|s| serde_json::from_str(&s).ok()).unwrap_or(Value::Null);
        let c = &v["case"];
        match serde_json::from_value::<Case>(c["case"].clone()) {
            Ok(case) => {
                let stream = c["stream"].as_str().unwrap_or("replay").to_string();
                ctx.run_case(&stream, c["index"].as_u64().unwrap_or(0), &case);
            }
            Err(e) => ctx.rep.internal.push(format!("unreadable replay file {}: {}", path.display(), e)),
        }
    } else {
        check_doc_table(&mut ctx);
        let (n_full, n_headers) = if ctx.rep.thorough() { (3000, 1600) } else { (360, 160) };
        for i in 0..n_full {
            let mut rng = case_rng(a.seed, "full", i);
            let case = gen_full(&mut rng, i);
            ctx.run_case("full", i, &case);
        }
        for i in 0..n_headers {
            let mut rng = case_rng(a.seed, "headers", i);
            let case = gen_header_case(&mut rng, i);
            ctx.run_case("headers", i, &case);
        }
    }
    ctx.rep.extra.insert("model_requests".into(), json!(ctx.model.requests));
    ctx.rep.extra.insert("binary".into(), json!(cli_binary().display().to_string()));
    let _ = std::fs::remove_dir_all(&ctx.work);
    ctx.rep.finish()
}
