//! Correspondence harness for the command line tool `graphql-client` (binary built from /repo's
//! working tree): C19 (`generate`) and C20 (`introspect-schema`).
//!
//!   vdrive_cli C19|C20 --tier quick|thorough --seed N --out <file> [--replay <file>]
mod c19;
mod c20;
mod mock;
mod util;

fn main() {
    let args: Vec<String> = std::env::args().skip(1).collect();
    let code = match args.first().map(|s| s.as_str()) {
        Some("C19") => c19::run(&vcore::report::parse_args(&args[1..])),
        Some("C20") => c20::run(&vcore::report::parse_args(&args[1..])),
        _ => {
            eprintln!("usage: vdrive_cli C19|C20 --tier quick|thorough --seed N --out <file> [--replay <file>]");
            2
        }
    };
    std::process::exit(code)
}
