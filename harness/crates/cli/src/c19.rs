//! C19 — `graphql-client generate` writes exactly the library's output to the right file.
//!
//! Implementation under test: the binary `graphql-client` built from /repo's working tree, run as a child
//! process in a scratch directory; reference: the library (`graphql_client_codegen`) called in-process
//! with the options the flags are documented to mean.
//!
//! Streams (case `i` of a stream is regenerated from `(seed, stream, i)` alone):
//!   generate   generated (schema, document) pairs — schema as `.graphql` or `.json` — × flag combinations
//!              × query file name shapes × query path forms × output placement {beside the query file, -o dir}
//!              × {rustfmt, --no-formatting} × destination {absent, pre-seeded}
//!   failing    the same with one invalidating change: unknown field, undefined fragment, `__typename`
//!              removed from an abstract selection, anonymous operation, unparsable document, missing query
//!              file, unparsable schema, refused flag value, missing output directory
//!   paths      path strings only (no process): the model's `file_name` / `file_stem` / `with_extension` /
//!              `join` against `std::path` — the tie of the string model the `dest_path` theorems are about
//! Oracles (from the property statement, on the implementation alone): see `run_case`.
use crate::util::*;
use graphql_client_codegen::GraphQLClientCodegenOptions;
use serde::{Deserialize, Serialize};
use serde_json::{json, Value};
use std::panic::{catch_unwind, AssertUnwindSafe};
use std::path::{Path, PathBuf};
use vcore::common::{panic_message, Opts, RealOutcome};
use vcore::gen::op::{random_doc, OpKnobs};
use vcore::gen::rng::Rng;
use vcore::gen::schema::{random_schema, AType, RenderKnobs, SchemaKnobs};
use vcore::model::Model;
use vcore::report::{Args, Report};
use vcore::sexp::{atom, boolean, list, opt_str, st, strs, tagged, Sexp};

/// the header line the statement calls "the warning-suppression header"
const HEADER: &str = "#![allow(clippy::all, warnings)]";

#[derive(Serialize, Deserialize, Clone, Debug, Default)]
struct Flags {
    selected_operation: Option<String>,
    variables_derives: Option<String>,
    response_derives: Option<String>,
    deprecation_strategy: Option<String>,
    no_formatting: bool,
    module_visibility: Option<String>,
    custom_scalars_module: Option<String>,
    fragments_other_variant: bool,
    external_enums: Option<Vec<String>>,
}

#[derive(Serialize, Deserialize, Clone, Debug)]
enum Placement {
    /// no `-o`: beside the query file
    Beside,
    /// `-o <dir>`; the string is the argument as written (relative to the case directory)
    OutDir(String),
    /// `-o` names a directory that does not exist
    MissingDir,
}

#[derive(Serialize, Deserialize, Clone, Debug)]
struct Case {
    schema_text: String,
    schema_ext: String,
    query_text: String,
    /// file name of the query document inside `q/`
    query_name: String,
    /// how the path is written on the command line: abs | rel | dot | dslash
    query_form: String,
    flags: Flags,
    placement: Placement,
    /// content of a file already sitting at the destination
    preseed: Option<String>,
    /// the invalidating change, if any
    edit: Option<String>,
}

const QUERY_NAMES: [&str; 12] = [
    "q.graphql", "a.b.graphql", ".graphql", "noext", "my query.graphql", "q.tar.gz", "ünï.graphql", "q.", "Q.GraphQL", "..hidden.gql", "x.rs", "v1.2.3",
];
const DEPRECATIONS: [&str; 9] = ["allow", "deny", "warn", " deny ", "Deny", "bogus", "", "warn\t", "ALLOW"];
const VISIBILITIES: [&str; 12] = ["pub", "private", "inherited", "PRIVATE", "Pub", "Inherited", "crate", "super", "self", "crate::gql", "in crate", "pub(crate)"];
const SCALAR_MODULES: [&str; 5] = ["crate::scalars", "super::custom", "::ext::sc", "scalars", "not a path!"];
const DERIVES: [&str; 5] = ["Debug", "Clone, PartialEq", "Debug,Clone", "Serialize", "PartialEq,Eq , Hash"];

// ------------------------------------------------------------------------------------------------
// what the flags mean (written from the statement and the --help text)
// ------------------------------------------------------------------------------------------------

#[derive(Debug, Clone, PartialEq)]
enum VisSpec {
    Pub,
    Inherited,
    Restricted(String),
}

fn vis_spec(v: &Option<String>) -> VisSpec {
    match v.as_deref() {
        None => VisSpec::Pub,
        Some(s) => match s.to_lowercase().as_str() {
            "pub" => VisSpec::Pub,
            "private" | "inherited" => VisSpec::Inherited,
            _ => VisSpec::Restricted(s.to_string()),
        },
    }
}

fn path_ok(s: &str) -> bool {
    syn::parse_str::<syn::Path>(s).is_ok()
}

/// the library options the flags are documented to mean
fn expected_opts(f: &Flags) -> Opts {
    let dep = match f.deprecation_strategy.as_deref().map(|s| s.trim()) {
        Some("allow") => "allow",
        Some("deny") => "deny",
        _ => "warn",
    };
    Opts {
        derive_mode: false,
        operation_name: f.selected_operation.clone(),
        deprecation: dep,
        other_variant: f.fragments_other_variant,
        response_derives: f.response_derives.clone(),
        variables_derives: f.variables_derives.clone(),
        scalars_module: f.custom_scalars_module.clone(),
        extern_enums: f.external_enums.clone().unwrap_or_default(),
        visibility: match vis_spec(&f.module_visibility) {
            VisSpec::Pub => "pub".into(),
            VisSpec::Inherited => String::new(),
            VisSpec::Restricted(p) => format!("pub({})", p.chars().filter(|c| !c.is_whitespace()).collect::<String>()),
        },
        ..Opts::default()
    }
}

/// `Opts::to_real` cannot express `pub(<arbitrary path>)`; the visibility is set by hand
fn real_options(o: &Opts, vis: &VisSpec) -> GraphQLClientCodegenOptions {
    let mut plain = o.clone();
    plain.visibility = String::new();
    let mut r = plain.to_real();
    r.set_module_visibility(match vis {
        VisSpec::Pub => syn::parse_str("pub").unwrap(),
        VisSpec::Inherited => syn::Visibility::Inherited,
        VisSpec::Restricted(p) => syn::Visibility::Restricted(syn::VisRestricted {
            pub_token: Default::default(),
            paren_token: Default::default(),
            in_token: None,
            path: Box::new(syn::parse_str(p).expect("checked by path_ok")),
        }),
    });
    r
}

/// the same entry point the tool uses: it reads the query file itself (and panics if it cannot)
fn run_library(schema_path: &Path, query_path: &Path, o: GraphQLClientCodegenOptions) -> RealOutcome {
    match catch_unwind(AssertUnwindSafe(|| graphql_client_codegen::generate_module_token_stream(query_path.to_path_buf(), schema_path, o))) {
        Ok(Ok(ts)) => RealOutcome::Ok(ts.to_string()),
        Ok(Err(e)) => RealOutcome::Err(e.to_string()),
        Err(p) => RealOutcome::Panic(panic_message(p)),
    }
}

/// the items of a file as a set of normalised token strings (nested modules flattened with a path
/// prefix): commas before a closing delimiter dropped, `use` trees expanded to single paths without a
/// leading `::` — what rustfmt may legitimately change
fn item_set(text: &str) -> Result<std::collections::BTreeSet<String>, String> {
    use quote::ToTokens;
    fn norm(ts: proc_macro2::TokenStream, out: &mut String) {
        let toks: Vec<proc_macro2::TokenTree> = ts.into_iter().collect();
        let n = toks.len();
        for (i, t) in toks.into_iter().enumerate() {
            match t {
                proc_macro2::TokenTree::Group(g) => {
                    let (o, c) = match g.delimiter() {
                        proc_macro2::Delimiter::Parenthesis => ("(", ")"),
                        proc_macro2::Delimiter::Brace => ("{", "}"),
                        proc_macro2::Delimiter::Bracket => ("[", "]"),
                        proc_macro2::Delimiter::None => ("", ""),
                    };
                    out.push_str(o);
                    norm(g.stream(), out);
                    out.push_str(c);
                    out.push(' ');
                }
                proc_macro2::TokenTree::Punct(p) if p.as_char() == ',' && i + 1 == n => {}
                other => {
                    out.push_str(&other.to_string());
                    out.push(' ');
                }
            }
        }
    }
    fn use_paths(prefix: &str, t: &syn::UseTree, out: &mut Vec<String>) {
        match t {
            syn::UseTree::Path(p) => use_paths(&format!("{}{}::", prefix, p.ident), &p.tree, out),
            syn::UseTree::Name(n) => out.push(format!("{}{}", prefix, n.ident)),
            syn::UseTree::Rename(r) => out.push(format!("{}{} as {}", prefix, r.ident, r.rename)),
            syn::UseTree::Glob(_) => out.push(format!("{}*", prefix)),
            syn::UseTree::Group(g) => g.items.iter().for_each(|i| use_paths(prefix, i, out)),
        }
    }
    fn walk(prefix: &str, items: &[syn::Item], set: &mut std::collections::BTreeSet<String>) {
        for it in items {
            match it {
                syn::Item::Use(u) => {
                    let mut v = Vec::new();
                    use_paths("", &u.tree, &mut v);
                    for p in v {
                        set.insert(format!("{}use {} {}", prefix, u.vis.to_token_stream(), p));
                    }
                }
                syn::Item::Mod(m) if m.content.is_some() => {
                    let mut head = String::new();
                    for a in &m.attrs {
                        norm(a.to_token_stream(), &mut head);
                    }
                    set.insert(format!("{}mod {} {} [{}]", prefix, m.vis.to_token_stream(), m.ident, head));
                    walk(&format!("{}{}::", prefix, m.ident), &m.content.as_ref().unwrap().1, set);
                }
                other => {
                    let mut s = String::new();
                    norm(other.to_token_stream(), &mut s);
                    set.insert(format!("{}{}", prefix, s));
                }
            }
        }
    }
    let f = syn::parse_file(text).map_err(|e| e.to_string())?;
    let mut set = std::collections::BTreeSet::new();
    let mut head = String::new();
    for a in &f.attrs {
        norm(a.to_token_stream(), &mut head);
    }
    set.insert(format!("#![{}]", head));
    walk("", &f.items, &mut set);
    Ok(set)
}

/// "`<query file stem>.rs`": the name up to its last dot; a name that only *starts* with a dot has no extension
fn oracle_stem(name: &str) -> String {
    match name.rfind('.') {
        Some(i) if i > 0 => name[..i].to_string(),
        _ => name.to_string(),
    }
}

// ------------------------------------------------------------------------------------------------
// generation
// ------------------------------------------------------------------------------------------------

fn gen_flags(rng: &mut Rng, ops: &[String], enums: &[String], valid_only: bool) -> Flags {
    let mut f = Flags::default();
    if rng.chance(35) {
        f.selected_operation = Some(if rng.chance(80) && !ops.is_empty() { rng.pick(ops).clone() } else { "NoSuchOperation".into() });
    }
    if rng.chance(40) {
        f.variables_derives = Some(rng.pick(&DERIVES).to_string());
    }
    if rng.chance(40) {
        f.response_derives = Some(rng.pick(&DERIVES).to_string());
    }
    if rng.chance(55) {
        f.deprecation_strategy = Some(rng.pick(&DEPRECATIONS).to_string());
    }
    f.no_formatting = rng.chance(60);
    if rng.chance(60) {
        let v = rng.pick(&VISIBILITIES).to_string();
        if !valid_only || matches!(vis_spec(&Some(v.clone())), VisSpec::Pub | VisSpec::Inherited) || path_ok(&v) {
            f.module_visibility = Some(v);
        }
    }
    if rng.chance(35) {
        let m = rng.pick(&SCALAR_MODULES).to_string();
        if !valid_only || path_ok(&m) {
            f.custom_scalars_module = Some(m);
        }
    }
    f.fragments_other_variant = rng.chance(40);
    if rng.chance(35) {
        let mut v: Vec<String> = enums.iter().filter(|_| rng.chance(50)).cloned().collect();
        if rng.chance(20) {
            v.push("NotInTheSchema".into());
        }
        f.external_enums = Some(v);
    }
    f
}

fn gen_pair(rng: &mut Rng) -> (String, String, String, Vec<String>, Vec<String>) {
    let schema = random_schema(rng, &SchemaKnobs::default());
    let knobs = RenderKnobs { explicit_schema_block: rng.chance(50), use_extend: rng.chance(30), json_wrapped: rng.chance(50), ..RenderKnobs::default() };
    let as_json = rng.chance(40);
    let text = if as_json { serde_json::to_string_pretty(&schema.to_json(&knobs)).unwrap() } else { schema.to_sdl(&knobs) };
    let doc = random_doc(rng, &schema, &OpKnobs::default());
    let ops = doc.ops.iter().map(|o| o.name.clone()).collect();
    let enums = schema.types.iter().filter_map(|t| if let AType::Enum { name, .. } = t { Some(name.clone()) } else { None }).collect();
    // every extension the library reads as SDL (`get_set_schema_from_file`): .graphql, .graphqls, .gql
    (text, if as_json { "json".into() } else { rng.pick(&["graphql", "graphql", "graphqls", "gql"]).to_string() }, doc.render(), ops, enums)
}

fn gen_placement(rng: &mut Rng) -> Placement {
    match rng.below(10) {
        0..=3 => Placement::Beside,
        4 => Placement::OutDir("out".into()),
        5 => Placement::OutDir("out/".into()),
        6 => Placement::OutDir("./out".into()),
        7 => Placement::OutDir("out/nested//".into()),
        8 => Placement::OutDir("ABS".into()), // replaced by the absolute path of `out`
        _ => Placement::OutDir("out/.".into()),
    }
}

fn gen_case(rng: &mut Rng, index: u64) -> Case {
    let (schema_text, schema_ext, query_text, ops, enums) = gen_pair(rng);
    let flags = gen_flags(rng, &ops, &enums, true);
    Case {
        schema_text,
        schema_ext,
        query_text,
        query_name: QUERY_NAMES[(index % 12) as usize].to_string(),
        query_form: rng.pick(&["abs", "rel", "dot", "dslash", "symlink"]).to_string(),
        flags,
        placement: gen_placement(rng),
        // an older output at the destination: short, or much LONGER than anything the new run writes
        preseed: match rng.below(10) {
            0..=1 => Some("// an older generated file\npub struct Old;\n".into()),
            2..=3 => Some(format!("// an older, much longer generated file\n{}", "pub struct OlderAndLonger;\n".repeat(4000))),
            _ => None,
        },
        edit: None,
    }
}

const EDITS: [&str; 11] = [
    "unknown-field", "undefined-fragment", "typename-removed", "anonymous-operation", "unparsable-document", "missing-query-file", "unparsable-schema",
    "bad-scalars-module", "bad-visibility-path", "missing-output-directory", "typename-witness",
];

fn gen_failing(rng: &mut Rng, index: u64) -> Case {
    let mut c = gen_case(rng, index / 11);
    let edit = EDITS[(index % 11) as usize];
    c.edit = Some(edit.to_string());
    c.preseed = if rng.chance(60) { Some("// must survive\n".into()) } else { None };
    let insert_after_first_brace = |text: &str, what: &str| match text.find('{') {
        Some(i) => format!("{}\n  {}\n{}", &text[..=i], what, &text[i + 1..]),
        None => text.to_string(),
    };
    match edit {
        "unknown-field" => c.query_text = insert_after_first_brace(&c.query_text, "noSuchField__x"),
        "undefined-fragment" => c.query_text = insert_after_first_brace(&c.query_text, "...UndefinedFragment__x"),
        "typename-removed" => c.query_text = c.query_text.replace("__typename", ""),
        "anonymous-operation" => {
            // the first operation loses its name (and its variables, which an anonymous `{` cannot declare)
            if let (Some(i), Some(j)) = (c.query_text.find(' '), c.query_text.find('{')) {
                if c.query_text[..j].contains('(') {
                    c.query_text = format!("query {}", &c.query_text[c.query_text.find('(').unwrap()..]);
                } else {
                    let _ = i;
                    c.query_text = c.query_text[j..].to_string();
                }
            }
        }
        "unparsable-document" => c.query_text = format!("{}\nquery Broken {{ a ", c.query_text),
        "missing-query-file" => {}
        "unparsable-schema" => c.schema_text = if c.schema_ext == "json" { "{\"data\": {\"__schema\": ".into() } else { "type Query { a: ".into() },
        "bad-scalars-module" => c.flags.custom_scalars_module = Some(rng.pick(&["not a path!", "a::", "1abc", ""]).to_string()),
        "bad-visibility-path" => c.flags.module_visibility = Some(rng.pick(&["in crate", "pub(crate)", "a b", "1x"]).to_string()),
        "missing-output-directory" => c.placement = Placement::MissingDir,
        _ => {
            // fixed witness: an interface selection without `__typename`
            c.schema_text = "interface Animal { name: String }\ntype Dog implements Animal { name: String barks: Boolean }\ntype Query { pet: Animal }\n".into();
            c.schema_ext = "graphql".into();
            c.query_text = "query Q { pet { name } }\n".into();
            c.flags.selected_operation = None;
            c.flags.external_enums = None;
        }
    }
    c
}

// ------------------------------------------------------------------------------------------------
// running one case
// ------------------------------------------------------------------------------------------------

struct Ctx {
    rep: Report,
    model: Model,
    work: PathBuf,
    n: u64,
}

fn flags_sexp(query: &str, schema: &str, outdir: Option<&str>, f: &Flags) -> Sexp {
    tagged(
        "flags",
        vec![
            st(query),
            st(schema),
            opt_str(f.selected_operation.as_deref()),
            opt_str(f.variables_derives.as_deref()),
            opt_str(f.response_derives.as_deref()),
            opt_str(f.deprecation_strategy.as_deref()),
            opt_str(f.module_visibility.as_deref()),
            opt_str(outdir),
            opt_str(f.custom_scalars_module.as_deref()),
            boolean(f.no_formatting),
            boolean(f.fragments_other_variant),
            match &f.external_enums {
                None => tagged("none", vec![]),
                Some(v) => tagged("some", vec![strs(v.iter())]),
            },
        ],
    )
}

fn paths_ok_sexp(f: &Flags) -> Sexp {
    let mut ok = vec![atom("paths-ok")];
    for s in [&f.module_visibility, &f.custom_scalars_module].into_iter().flatten() {
        if path_ok(s) {
            ok.push(st(s));
        }
    }
    list(ok)
}

impl Ctx {
    fn run_case(&mut self, stream: &str, index: u64, case: &Case) {
        self.n += 1;
        let dir = self.work.join(format!("c19-{}", self.n));
        let qdir = dir.join("q");
        std::fs::create_dir_all(&qdir).unwrap();
        std::fs::create_dir_all(dir.join("out").join("nested")).unwrap();
        let info = |extra: Value| {
            let mut v = json!({"stream": stream, "index": index, "case": case});
            if let (Some(o), Some(e)) = (v.as_object_mut(), extra.as_object()) {
                for (k, x) in e {
                    o.insert(k.clone(), x.clone());
                }
            }
            v
        };
        let edit = case.edit.as_deref();
        let f = &case.flags;

        // ---- files and arguments ------------------------------------------------------------------
        let schema_path = dir.join(format!("schema.{}", case.schema_ext));
        std::fs::write(&schema_path, &case.schema_text).unwrap();
        let query_file = qdir.join(&case.query_name);
        if edit != Some("missing-query-file") {
            std::fs::write(&query_file, &case.query_text).unwrap();
        }
        // (a query file that is its own destination, e.g. `x.rs`, is not linked: writing through the link
        // would overwrite the link's target, which says nothing about the property)
        let own_destination = qdir.join(format!("{}.rs", oracle_stem(&case.query_name))) == query_file;
        if case.query_form == "symlink" && edit != Some("missing-query-file") && !own_destination {
            // the query path names a symbolic link whose target has another name in another directory:
            // file name and default location come from the path as WRITTEN
            let store = dir.join("store");
            std::fs::create_dir_all(&store).unwrap();
            let target = store.join("actual_target_name.graphql");
            std::fs::rename(&query_file, &target).unwrap();
            std::os::unix::fs::symlink(&target, &query_file).unwrap();
        }
        let query_arg = match case.query_form.as_str() {
            "abs" => query_file.to_string_lossy().into_owned(),
            "symlink" => format!("q/{}", case.query_name),
            "rel" => format!("q/{}", case.query_name),
            "dot" => format!("./q/{}", case.query_name),
            _ => format!("q//{}", case.query_name),
        };
        let outdir_arg: Option<String> = match &case.placement {
            Placement::Beside => None,
            Placement::OutDir(d) if d == "ABS" => Some(dir.join("out").to_string_lossy().into_owned()),
            Placement::OutDir(d) => Some(d.clone()),
            Placement::MissingDir => Some("no/such/dir".into()),
        };
        // where the statement puts the file
        let dest_dir: PathBuf = match &outdir_arg {
            None => qdir.clone(),
            Some(d) => dir.join(d),
        };
        let expected_dest = dest_dir.join(format!("{}.rs", oracle_stem(&case.query_name)));
        if let Some(old) = &case.preseed {
            if dest_dir.is_dir() && expected_dest != query_file {
                std::fs::write(&expected_dest, old).unwrap();
            }
        }
        let dest_before: Option<String> = std::fs::read(&expected_dest).ok().map(|b| String::from_utf8_lossy(&b).into_owned());
        let mut args: Vec<String> = vec!["generate".into(), "--schema-path".into(), schema_path.to_string_lossy().into_owned()];
        if let Some(v) = &f.selected_operation {
            args.push(format!("--selected-operation={}", v));
        }
        if let Some(v) = &f.variables_derives {
            args.push(format!("--variables-derives={}", v));
        }
        if let Some(v) = &f.response_derives {
            args.push(format!("--response-derives={}", v));
        }
        if let Some(v) = &f.deprecation_strategy {
            args.push(format!("--deprecation-strategy={}", v));
        }
        if f.no_formatting {
            args.push("--no-formatting".into());
        }
        if let Some(v) = &f.module_visibility {
            args.push(format!("--module-visibility={}", v));
        }
        if let Some(v) = &outdir_arg {
            args.push(format!("--output-directory={}", v));
        }
        if let Some(v) = &f.custom_scalars_module {
            args.push(format!("--custom-scalars-module={}", v));
        }
        if f.fragments_other_variant {
            args.push("--fragments-other-variant".into());
        }
        args.push(query_arg.clone());
        if let Some(v) = &f.external_enums {
            // `num_args(0..)`: after the positional, values follow (possibly none)
            args.push("--external-enums".into());
            args.extend(v.iter().cloned());
        }

        // ---- distribution ----------------------------------------------------------------------
        self.rep.count(&format!("stream:{}", stream));
        self.rep.count(&format!("schema:{}", case.schema_ext));
        self.rep.count(&format!("query-name:{}", case.query_name));
        self.rep.count(&format!("query-path-form:{}", case.query_form));
        self.rep.count(&format!("placement:{}", match &case.placement { Placement::Beside => "beside".to_string(), Placement::OutDir(d) => format!("-o {}", d), Placement::MissingDir => "-o <missing>".to_string() }));
        self.rep.count(if f.no_formatting { "formatting:--no-formatting" } else { "formatting:rustfmt" });
        self.rep.count(if case.preseed.is_some() { "destination:pre-seeded" } else { "destination:absent" });
        if let Some(e) = edit {
            self.rep.count(&format!("edit:{}", e));
        }
        for (name, set) in [
            ("selected-operation", f.selected_operation.is_some()), ("variables-derives", f.variables_derives.is_some()),
            ("response-derives", f.response_derives.is_some()), ("deprecation-strategy", f.deprecation_strategy.is_some()),
            ("module-visibility", f.module_visibility.is_some()), ("custom-scalars-module", f.custom_scalars_module.is_some()),
            ("fragments-other-variant", f.fragments_other_variant), ("external-enums", f.external_enums.is_some()),
        ] {
            if set {
                self.rep.count(&format!("flag:{}", name));
            }
        }
        if let Some(v) = &f.module_visibility {
            self.rep.count(&format!("visibility:{}", v));
        }
        if let Some(v) = &f.deprecation_strategy {
            self.rep.count(&format!("deprecation:{:?}", v));
        }

        // ---- the reference: the library with the options the flags mean ------------------------------------
        let vis = vis_spec(&f.module_visibility);
        let vis_path_bad = matches!(&vis, VisSpec::Restricted(p) if !path_ok(p));
        let scalars_bad = f.custom_scalars_module.as_deref().map(|m| !path_ok(m)).unwrap_or(false);
        let opts = expected_opts(f);
        let lib: RealOutcome = if vis_path_bad || scalars_bad {
            RealOutcome::Err("flag value refused".into())
        } else {
            // a private copy of the schema file: the library caches schemas by path
            let lib_schema = dir.join(format!("lib-schema-{}.{}", self.n, case.schema_ext));
            std::fs::write(&lib_schema, &case.schema_text).unwrap();
            let r = run_library(&lib_schema, &query_file, real_options(&opts, &vis));
            let _ = std::fs::remove_file(&lib_schema);
            r
        };
        self.rep.count(&format!("library:{}", lib.kind()));
        let unformatted = match &lib {
            RealOutcome::Ok(t) => Some(format!("{}\n{}", HEADER, t)),
            _ => None,
        };
        // "through rustfmt": the reference text through the same rustfmt, in the same directory
        let formatted: Option<Option<String>> = match (&unformatted, f.no_formatting) {
            (Some(u), false) => Some(rustfmt(u, &dir)),
            _ => None,
        };
        let creatable = !matches!(case.placement, Placement::MissingDir);
        let success_expected = unformatted.is_some() && creatable && formatted.as_ref().map(|x| x.is_some()).unwrap_or(true);

        // ---- (a) the implementation --------------------------------------------------------------
        let before = snapshot(&dir);
        let run = run_cli(&args, &dir);
        let after = snapshot(&dir);
        let code = match run.code {
            Some(c) => c,
            None => {
                if run.timed_out {
                    // the command neither finished nor failed: no generated file, no error message
                    self.rep.fail("command-does-not-terminate", info(json!({"args": args.iter().map(|a| short(a, 100)).collect::<Vec<_>>(), "observed": run.stderr_tail()})));
                } else {
                    self.rep.internal.push(format!("the binary could not be run / was killed: {}", run.stderr_tail()));
                }
                return;
            }
        };
        let ch = changed(&before, &after);
        let rel = |p: &Path| -> String {
            let c = std::fs::canonicalize(p).unwrap_or_else(|_| p.to_path_buf());
            let d = std::fs::canonicalize(&dir).unwrap_or_else(|_| dir.clone());
            c.strip_prefix(&d).map(|x| x.to_string_lossy().into_owned()).unwrap_or_else(|_| c.to_string_lossy().into_owned())
        };
        let obs = json!({"exit": code, "files_changed": ch, "stderr": run.stderr_tail(), "args": args.iter().map(|a| short(a, 100)).collect::<Vec<_>>()});

        // ---- (c) the property, on the implementation alone ----------------------------------------------
        let fail = |rep: &mut Report, class: &str, why: &str| {
            rep.fail(class, info(json!({"why": why, "observed": obs, "library": short(&format!("{:?}", lib), 300)})));
        };
        if success_expected {
            let want = rel(&expected_dest);
            if code != 0 {
                fail(&mut self.rep, "generate-failed", "the library generates code for these inputs, but the exit status is not 0");
            } else {
                let written = std::fs::read(&expected_dest).ok();
                match &written {
                    None => fail(&mut self.rep, "wrong-destination", &format!("no file at {}", want)),
                    Some(bytes) => {
                        let text = String::from_utf8_lossy(bytes).into_owned();
                        let reference = unformatted.as_ref().unwrap();
                        if f.no_formatting {
                            if &text != reference {
                                fail(&mut self.rep, "output-differs", "with --no-formatting the file is not header + newline + the library's tokens, byte for byte");
                            }
                        } else {
                            if text.lines().next() != Some(HEADER) {
                                fail(&mut self.rep, "header-missing", "the first line is not the warning-suppression header");
                            }
                            // rustfmt reorders `use` items and drops trailing commas, so the token streams of the two
                            // texts are compared *after* both went through rustfmt: byte equality of the results
                            let want_text = formatted.as_ref().and_then(|x| x.as_ref()).unwrap();
                            if &text != want_text {
                                let i = text.chars().zip(want_text.chars()).position(|(x, y)| x != y).unwrap_or(text.len().min(want_text.len()));
                                let ctx = |s: &str| s.chars().skip(i.saturating_sub(60)).take(140).collect::<String>();
                                fail(&mut self.rep, "output-differs", &format!("the file is not rustfmt(header + newline + the library's tokens); file: …{}… / reference: …{}…", ctx(&text), ctx(want_text)));
                            }
                            // and it is the same Rust: every item of the library's output is there (items compared as
                            // token strings without trailing commas, `use` items as a set)
                            match (item_set(&text), item_set(reference)) {
                                (Ok(a), Ok(b)) if a == b => {}
                                (Ok(a), Ok(b)) => {
                                    let d: Vec<&String> = a.symmetric_difference(&b).take(2).collect();
                                    fail(&mut self.rep, "output-differs", &format!("the formatted file and the library's output differ as sets of items, e.g. {}", short(&format!("{:?}", d), 300)))
                                }
                                (a, b) => fail(&mut self.rep, "output-differs", &format!("cannot parse: file {:?} / reference {:?}", a.err(), b.err())),
                            }
                        }
                    }
                }
                // the only file written is the destination (it may be unchanged only if it already held the same text)
                let others: Vec<&String> = ch.iter().filter(|c| **c != want).collect();
                if !others.is_empty() {
                    fail(&mut self.rep, "other-files-written", &format!("besides {} the run changed {:?}", want, others));
                }
            }
        } else {
            if code == 0 {
                fail(&mut self.rep, "failure-exit-zero", "generation cannot have succeeded, but the exit status is 0");
            }
            if !ch.is_empty() {
                fail(&mut self.rep, "file-written-on-failure", &format!("the run failed but changed {:?}", ch));
            }
        }

        // ---- (b) the model -----------------------------------------------------------------------
        let mut agree = true;
        let flags_s = flags_sexp(&query_arg, &schema_path.to_string_lossy(), outdir_arg.as_deref(), f);
        let ok_s = paths_ok_sexp(f);
        let r1 = self.model.ask(&tagged("cli-options", vec![flags_s.clone(), ok_s.clone()]));
        if r1.head() != Some("nomodel") {
            // options: the model's map against the documented meaning
            let expected: Sexp = if vis_path_bad {
                atom("panic")
            } else if scalars_bad {
                atom("failure")
            } else {
                opts.to_sexp()
            };
            let got: Sexp = match r1.head() {
                Some("ok") => r1.items()[1].clone(),
                Some(h) => atom(h),
                None => r1.clone(),
            };
            if got != expected {
                agree = false;
                self.rep.disagree(info(json!({"what": "cli-options", "model": got.short(400), "documented": expected.short(400)})));
            }
            // destination
            let r2 = self.model.ask(&tagged("dest-path", vec![opt_str(outdir_arg.as_deref()), st(&query_arg)]));
            let model_dest: Option<String> = r2.items().first().and_then(|s| s.as_str()).map(|s| s.to_string());
            match &model_dest {
                None => {
                    // no destination exactly when the query path has no file name (`q/..`)
                    if Path::new(&query_arg).file_name().is_some() {
                        agree = false;
                        self.rep.disagree(info(json!({"what": "dest-path", "model": "none", "documented": rel(&expected_dest)})));
                    }
                }
                Some(m) => {
                    let lexical = |p: &Path| -> PathBuf { p.components().filter(|c| !matches!(c, std::path::Component::CurDir)).collect() };
                    let mp = lexical(&dir.join(m));
                    if mp != lexical(&expected_dest) {
                        agree = false;
                        self.rep.disagree(info(json!({"what": "dest-path", "model": m, "documented": rel(&expected_dest)})));
                    }
                    if success_expected && code == 0 && !ch.is_empty() && !ch.iter().any(|c| rel(&dir.join(c)) == rel(&mp)) {
                        agree = false;
                        self.rep.disagree(info(json!({"what": "dest-path vs file written", "model": m, "implementation": ch})));
                    }
                }
            }
            // effects
            let lib_s = match &lib {
                RealOutcome::Ok(t) => tagged("tokens", vec![st(t)]),
                RealOutcome::Err(e) => tagged("err", vec![st(e)]),
                RealOutcome::Panic(e) => tagged("panic", vec![st(e)]),
            };
            let fmt_s = match &formatted {
                Some(Some(t)) => tagged("fmt", vec![st(t)]),
                Some(None) => tagged("fmtfail", vec![]),
                None => tagged("fmt", vec![st("(rustfmt is not run)")]),
            };
            let r3 = self.model.ask(&tagged("generate", vec![flags_s, ok_s, lib_s, fmt_s, boolean(creatable), opt_str(dest_before.as_deref())]));
            if r3.head() != Some("result") {
                self.rep.internal.push(format!("model reply to generate: {}", r3.short(200)));
            } else {
                let it = r3.items();
                let m_exit: i64 = it[1].as_str().and_then(|s| s.parse().ok()).unwrap_or(-1);
                let m_content: Option<String> = it[3].items().first().and_then(|s| s.as_str()).map(|s| s.to_string());
                let i_content: Option<String> = std::fs::read(&expected_dest).ok().map(|b| String::from_utf8_lossy(&b).into_owned());
                // exit status: 0 / 1 (error) / 101 (panic); a library panic inside the child is a panic there too
                if m_exit != code as i64 {
                    agree = false;
                    self.rep.disagree(info(json!({"what": "exit status", "model": m_exit, "implementation": code, "stderr": run.stderr_tail()})));
                }
                if m_content != i_content {
                    agree = false;
                    self.rep.disagree(info(json!({"what": "content of the destination", "model": m_content.as_deref().map(|s| short(s, 300)),
                        "implementation": i_content.as_deref().map(|s| short(s, 300))})));
                }
            }
            if agree {
                self.rep.traces_validated += 1;
            }
        }

        let key = format!("{}|{}", stream, index);
        // non-trivial: a process was run on a generated pair (every case of these two streams)
        self.rep.case(Some(&key));
        if self.rep.samples.len() < 4 && index % 9 == 4 {
            self.rep.sample(json!({"stream": stream, "index": index, "args": args.iter().map(|a| short(a, 100)).collect::<Vec<_>>(),
                "edit": edit, "exit": code, "files_changed": ch, "library": lib.kind()}));
        }
        let _ = std::fs::remove_dir_all(&dir);
    }

    /// the string model of `std::path` against `std::path` itself
    fn path_case(&mut self, index: u64, p: &str, dir: Option<&str>) {
        self.rep.count("stream:paths");
        let std_name: Option<String> = Path::new(p).file_name().map(|s| s.to_string_lossy().into_owned());
        let std_stem: Option<String> = std_name.as_ref().and_then(|n| Path::new(n).file_stem().map(|s| s.to_string_lossy().into_owned()));
        let std_parent: Option<String> = std_name.as_ref().and_then(|_| Path::new(p).parent().map(|s| s.to_string_lossy().into_owned()));
        // the destination as generate.rs computes it, with std::path
        let std_dest: Option<String> = std_name.as_ref().map(|n| {
            let mut dest_name = Path::new(n).file_stem().map(|s| s.to_os_string()).unwrap_or_else(|| n.into());
            dest_name.push(".rs");
            match dir {
                Some(d) => Path::new(d).join(&dest_name).to_string_lossy().into_owned(),
                None => Path::new(p).with_file_name(&dest_name).to_string_lossy().into_owned(),
            }
        });
        let m_name = self.model.ask(&tagged("file-name", vec![st(p)]));
        if m_name.head() == Some("nomodel") {
            self.rep.case(None);
            return;
        }
        let unopt = |s: &Sexp| s.items().first().and_then(|x| x.as_str()).map(|x| x.to_string());
        let m_dest = self.model.ask(&tagged("dest-path", vec![opt_str(dir), st(p)]));
        let mut ok = true;
        let mut diff = |rep: &mut Report, what: &str, m: String, s: String| {
            ok = false;
            rep.disagree(json!({"stream": "paths", "index": index, "path": p, "dir": dir, "what": what, "model": m, "std::path": s}));
        };
        if unopt(&m_name) != std_name {
            diff(&mut self.rep, "file_name", format!("{:?}", unopt(&m_name)), format!("{:?}", std_name));
        }
        if unopt(&m_dest) != std_dest {
            diff(&mut self.rep, "dest", format!("{:?}", unopt(&m_dest)), format!("{:?}", std_dest));
        }
        if let Some(par) = &std_parent {
            let m_parent = self.model.ask(&tagged("parent", vec![st(p)]));
            if m_parent.as_str() != Some(par.as_str()) {
                diff(&mut self.rep, "parent", m_parent.short(100), par.clone());
            }
        }
        if let (Some(n), Some(s)) = (&std_name, &std_stem) {
            let m_stem = self.model.ask(&tagged("file-stem", vec![st(n)]));
            if m_stem.as_str() != Some(s.as_str()) {
                diff(&mut self.rep, "file_stem", m_stem.short(100), s.clone());
            }
            // the statement's own reading of "stem" agrees with std on file names
            if oracle_stem(n) != *s {
                self.rep.internal.push(format!("oracle_stem({:?}) = {:?}, std says {:?}", n, oracle_stem(n), s));
            }
        }
        if ok {
            self.rep.traces_validated += 1;
        }
        let nontrivial = std_name.is_some() && (p.contains('/') || p.matches('.').count() >= 1);
        let key = format!("paths|{}|{:?}", p, dir);
        self.rep.case(if nontrivial { Some(&key) } else { None });
    }
}

fn gen_path(rng: &mut Rng) -> String {
    const CURATED: [&str; 24] = [
        "", ".", "..", "/", "./", "a", "a.b", "a.b.c", ".a", ".a.b", "a.", "..a", "...", "a/..", "a/.", "a/./", "a//b.graphql/", "/abs/q.graphql", "./q.x", "q/.hidden",
        "dir.d/file", "x/y.z/", "../up.q", "a b/c d.e f",
    ];
    if rng.chance(25) {
        return rng.pick(&CURATED).to_string();
    }
    let alphabet = ['a', 'b', '.', '.', '/', '/', ' ', 'ü', 'Q', '-'];
    let n = rng.range(1, 9);
    (0..n).map(|_| *rng.pick(&alphabet)).collect()
}

pub fn run(a: &Args) -> i32 {
    let mut ctx = Ctx {
        rep: Report::new(
            "C19",
            a,
            "streams `generate` / `failing`: one run of the built `graphql-client generate` on a generated (schema, document) pair with a flag combination, file-name shape, path form, output placement and formatting mode, compared with the library called in-process (non-trivial: every such run; key = (stream, index)); stream `paths`: one path string through the model's file_name / file_stem / with_extension / join and through std::path (non-trivial: the path has a file name and a dot or a separator; key = the string)",
        ),
        model: Model::spawn(),
        work: vcore::common::work_dir(),
        n: 0,
    };
    if !cli_binary().exists() {
        ctx.rep.internal.push(format!("the binary under test is missing: {}", cli_binary().display()));
        return ctx.rep.finish();
    }
    vcore::common::quiet_panics();
    if let Some(path) = &a.replay {
        let v: Value = std::fs::read_to_string(path).ok().and_then(|s| serde_json::from_str(&s).ok()).unwrap_or(Value::Null);
        let c = &v["case"];
        match serde_json::from_value::<Case>(c["case"].clone()) {
            Ok(case) => {
                let stream = c["stream"].as_str().unwrap_or("replay").to_string();
                ctx.run_case(&stream, c["index"].as_u64().unwrap_or(0), &case);
            }
            Err(_) => match (c["path"].as_str(), c["stream"].as_str()) {
                (Some(p), Some("paths")) => ctx.path_case(c["index"].as_u64().unwrap_or(0), p, c["dir"].as_str()),
                _ => ctx.rep.internal.push(format!("unreadable replay file {}", path.display())),
            },
        }
    } else {
        let (n_gen, n_fail, n_paths) = if ctx.rep.thorough() { (1500, 660, 8000) } else { (200, 88, 600) };
        for i in 0..n_gen {
            let mut rng = case_rng(a.seed, "generate", i);
            let case = gen_case(&mut rng, i);
            ctx.run_case("generate", i, &case);
        }
        for i in 0..n_fail {
            let mut rng = case_rng(a.seed, "failing", i);
            let case = gen_failing(&mut rng, i);
            ctx.run_case("failing", i, &case);
        }
        // names of the shape `..ext` (once mis-placed by `Path::with_extension`) and other odd names, every placement
        let odd = ["..graphql", "..gql", "..q", "...graphql", "..", "...x", "q.", ".graphql", "a.b.graphql", "noext"];
        let n_odd = if ctx.rep.thorough() { 100 } else { 20 };
        for i in 0..n_odd {
            let mut rng = case_rng(a.seed, "dotdot-name", i);
            let mut case = gen_case(&mut rng, i);
            case.query_name = odd[(i % 10) as usize].to_string();
            case.flags.no_formatting = true;
            if case.query_name == ".." {
                // not a file name at all: the query cannot even be read
                case.edit = Some("missing-query-file".into());
            }
            ctx.run_case("dotdot-name", i, &case);
        }
        // one large document through rustfmt (the formatted text is well beyond any pipe buffer): the command must end
        for (i, no_formatting) in [(0u64, false), (1u64, true)] {
            let n_fields = 1600;
            let schema_text = format!("type Query {{\n{}}}\n", (0..n_fields).map(|k| format!("  field{}: Int\n", k)).collect::<String>());
            let query_text = format!("query Big {{\n{}}}\n", (0..n_fields).map(|k| format!("  field{}\n", k)).collect::<String>());
            let case = Case {
                schema_text,
                schema_ext: "graphql".into(),
                query_text,
                query_name: "big.graphql".into(),
                query_form: "rel".into(),
                flags: Flags { no_formatting, ..Flags::default() },
                placement: Placement::Beside,
                preseed: None,
                edit: None,
            };
            ctx.run_case("large-output", i, &case);
        }
        for i in 0..n_paths {
            let mut rng = case_rng(a.seed, "paths", i);
            let p = gen_path(&mut rng);
            let dir = match rng.below(5) {
                0 => None,
                1 => Some("out"),
                2 => Some("out/"),
                3 => Some(""),
                _ => Some("/abs/dir//"),
            };
            ctx.path_case(i, &p, dir);
        }
    }
    ctx.rep.extra.insert("model_requests".into(), json!(ctx.model.requests));
    ctx.rep.extra.insert("binary".into(), json!(cli_binary().display().to_string()));
    let _ = std::fs::remove_dir_all(&ctx.work);
    ctx.rep.finish()
}
