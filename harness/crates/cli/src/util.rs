//! Running the binary under test, directory snapshots, small helpers.
use std::collections::BTreeMap;
use std::path::{Path, PathBuf};
use std::process::{Command, Stdio};
use vcore::gen::rng::Rng;

pub fn cli_binary() -> PathBuf {
    if let Ok(p) = std::env::var("GRAPHQL_CLIENT_BIN") {
        return PathBuf::from(p);
    }
    let target = std::env::var("CARGO_TARGET_DIR").unwrap_or_else(|_| "/verif/.work/target".into());
    PathBuf::from(target).join("debug").join("graphql-client")
}

pub struct RunOut {
    pub code: Option<i32>,
    pub stdout: Vec<u8>,
    pub stderr: String,
}

impl RunOut {
    pub fn stderr_tail(&self) -> String {
        let s = self.stderr.trim_end();
        let n = s.len().saturating_sub(400);
        let mut i = n;
        while !s.is_char_boundary(i) {
            i += 1;
        }
        s[i..].to_string()
    }
}

/// the real binary, no proxies, no logging, no inherited stdin
pub fn run_cli(args: &[String], cwd: &Path) -> RunOut {
    let mut c = Command::new(cli_binary());
    c.args(args).current_dir(cwd).stdin(Stdio::null()).stdout(Stdio::piped()).stderr(Stdio::piped());
    for v in ["http_proxy", "HTTP_PROXY", "https_proxy", "HTTPS_PROXY", "all_proxy", "ALL_PROXY", "RUST_LOG", "RUST_BACKTRACE"] {
        c.env_remove(v);
    }
    c.env("NO_PROXY", "*").env("no_proxy", "*");
    match c.output() {
        Ok(o) => RunOut { code: o.status.code(), stdout: o.stdout, stderr: String::from_utf8_lossy(&o.stderr).into_owned() },
        Err(e) => RunOut { code: None, stdout: vec![], stderr: format!("cannot run {}: {}", cli_binary().display(), e) },
    }
}

/// every regular file below `root` (relative path ↦ content)
pub fn snapshot(root: &Path) -> BTreeMap<String, Vec<u8>> {
    fn walk(dir: &Path, root: &Path, out: &mut BTreeMap<String, Vec<u8>>) {
        if let Ok(rd) = std::fs::read_dir(dir) {
            for e in rd.flatten() {
                let p = e.path();
                if p.is_dir() {
                    walk(&p, root, out);
                } else if let Ok(bytes) = std::fs::read(&p) {
                    out.insert(p.strip_prefix(root).unwrap().to_string_lossy().into_owned(), bytes);
                }
            }
        }
    }
    let mut out = BTreeMap::new();
    walk(root, root, &mut out);
    out
}

/// files created or changed between two snapshots
pub fn changed(before: &BTreeMap<String, Vec<u8>>, after: &BTreeMap<String, Vec<u8>>) -> Vec<String> {
    let mut v: Vec<String> = after.iter().filter(|(k, c)| before.get(*k) != Some(*c)).map(|(k, _)| k.clone()).collect();
    v.extend(before.keys().filter(|k| !after.contains_key(*k)).map(|k| format!("(deleted) {}", k)));
    v
}

/// the case `index` of stream `stream` has its own generator: cases can be regenerated one by one
pub fn case_rng(seed: u64, stream: &str, index: u64) -> Rng {
    Rng::new(seed ^ vcore::report::hash_str(stream).rotate_left(17) ^ index.wrapping_mul(0x9E37_79B9_7F4A_7C15))
}

pub fn short(s: &str, max: usize) -> String {
    if s.chars().count() <= max {
        s.to_string()
    } else {
        let t: String = s.chars().take(max).collect();
        format!("{}…[{} chars]", t, s.chars().count())
    }
}

pub fn rustfmt(code: &str, cwd: &Path) -> Option<String> {
    use std::io::Write;
    let mut child = Command::new("rustfmt").current_dir(cwd).stdin(Stdio::piped()).stdout(Stdio::piped()).stderr(Stdio::null()).spawn().ok()?;
    child.stdin.as_mut()?.write_all(code.as_bytes()).ok()?;
    let out = child.wait_with_output().ok()?;
    if out.status.success() {
        String::from_utf8(out.stdout).ok()
    } else {
        None
    }
}
