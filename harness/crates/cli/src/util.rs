//! Running the binary under test, directory snapshots, small helpers.
use std::collections::BTreeMap;
use std::path::{Path, PathBuf};
use std::process::{Command, Stdio};
use vcore::gen::rng::Rng;

pub fn cli_binary() -> PathBuf {
    if let Ok(p) = std::env::var("GRAPHQL_CLIENT_BIN") {
        return PathBuf::from(p);
    }
    let target = std::env::var("CARGO_TARGET_DIR").unwrap_or_else(|_| "/verif/.work/target".into());
    PathBuf::from(target).join("debug").join("graphql-client")
}

pub struct RunOut {
    pub code: Option<i32>,
    pub stdout: Vec<u8>,
    pub stderr: String,
    pub timed_out: bool,
}

impl RunOut {
    pub fn stderr_tail(&self) -> String {
        let s = self.stderr.trim_end();
        let n = s.len().saturating_sub(400);
        let mut i = n;
        while !s.is_char_boundary(i) {
            i += 1;
        }
        s[i..].to_string()
    }
}

/// the real binary, no proxies, no logging, no inherited stdin; killed after `CLI_TIMEOUT` (a run that does not end is an
/// observation, not a reason for the check to hang): `code` is then `None` and `timed_out` is set
pub const CLI_TIMEOUT: std::time::Duration = std::time::Duration::from_secs(90);

pub fn run_cli(args: &[String], cwd: &Path) -> RunOut {
    use std::io::Read;
    let mut c = Command::new(cli_binary());
    c.args(args).current_dir(cwd).stdin(Stdio::null()).stdout(Stdio::piped()).stderr(Stdio::piped());
    for v in ["http_proxy", "HTTP_PROXY", "https_proxy", "HTTPS_PROXY", "all_proxy", "ALL_PROXY", "RUST_LOG", "RUST_BACKTRACE"] {
        c.env_remove(v);
    }
    c.env("NO_PROXY", "*").env("no_proxy", "*");
    let mut child = match c.spawn() {
        Ok(ch) => ch,
        Err(e) => return RunOut { code: None, stdout: vec![], stderr: format!("cannot run {}: {}", cli_binary().display(), e), timed_out: false },
    };
    let mut so = child.stdout.take().expect("stdout");
    let mut se = child.stderr.take().expect("stderr");
    let t_out = std::thread::spawn(move || {
        let mut b = Vec::new();
        let _ = so.read_to_end(&mut b);
        b
    });
    let t_err = std::thread::spawn(move || {
        let mut b = Vec::new();
        let _ = se.read_to_end(&mut b);
        b
    });
    let start = std::time::Instant::now();
    let mut timed_out = false;
    let status = loop {
        match child.try_wait() {
            Ok(Some(st)) => break Some(st),
            Ok(None) => {
                if start.elapsed() > CLI_TIMEOUT {
                    timed_out = true;
                    // (children of the binary - rustfmt - hold the pipes: kill the whole group is not available here;
                    // killing the binary closes its ends, the reader threads end when rustfmt exits or is orphaned)
                    let _ = child.kill();
                    let _ = child.wait();
                    break None;
                }
                std::thread::sleep(std::time::Duration::from_millis(15));
            }
            Err(_) => break None,
        }
    };
    let (stdout, stderr) = if timed_out {
        (vec![], format!("killed after {} s without a result", CLI_TIMEOUT.as_secs()))
    } else {
        (t_out.join().unwrap_or_default(), String::from_utf8_lossy(&t_err.join().unwrap_or_default()).into_owned())
    };
    RunOut { code: status.and_then(|s| s.code()), stdout, stderr, timed_out }
}

/// every regular file below `root` (relative path ↦ content)
pub fn snapshot(root: &Path) -> BTreeMap<String, Vec<u8>> {
    fn walk(dir: &Path, root: &Path, out: &mut BTreeMap<String, Vec<u8>>) {
        if let Ok(rd) = std::fs::read_dir(dir) {
            for e in rd.flatten() {
                let p = e.path();
                if p.is_dir() {
                    walk(&p, root, out);
                } else if let Ok(bytes) = std::fs::read(&p) {
                    out.insert(p.strip_prefix(root).unwrap().to_string_lossy().into_owned(), bytes);
                }
            }
        }
    }
    let mut out = BTreeMap::new();
    walk(root, root, &mut out);
    out
}

/// files created or changed between two snapshots
pub fn changed(before: &BTreeMap<String, Vec<u8>>, after: &BTreeMap<String, Vec<u8>>) -> Vec<String> {
    let mut v: Vec<String> = after.iter().filter(|(k, c)| before.get(*k) != Some(*c)).map(|(k, _)| k.clone()).collect();
    v.extend(before.keys().filter(|k| !after.contains_key(*k)).map(|k| format!("(deleted) {}", k)));
    v
}

/// the case `index` of stream `stream` has its own generator: cases can be regenerated one by one
pub fn case_rng(seed: u64, stream: &str, index: u64) -> Rng {
    Rng::new(seed ^ vcore::report::hash_str(stream).rotate_left(17) ^ index.wrapping_mul(0x9E37_79B9_7F4A_7C15))
}

pub fn short(s: &str, max: usize) -> String {
    if s.chars().count() <= max {
        s.to_string()
    } else {
        let t: String = s.chars().take(max).collect();
        format!("{}…[{} chars]", t, s.chars().count())
    }
}

pub fn rustfmt(code: &str, cwd: &Path) -> Option<String> {
    use std::io::Write;
    let mut child = Command::new("rustfmt").current_dir(cwd).stdin(Stdio::piped()).stdout(Stdio::piped()).stderr(Stdio::null()).spawn().ok()?;
    child.stdin.as_mut()?.write_all(code.as_bytes()).ok()?;
    let out = child.wait_with_output().ok()?;
    if out.status.success() {
        String::from_utf8(out.stdout).ok()
    } else {
        None
    }
}
