//! Executing calls: in this process (sequentially / on threads behind a barrier) and alone in a
//! fresh process (`--single`); the reference table "result of these *contents*".
use serde_json::{json, Value};
use std::collections::BTreeMap;
use std::panic::{catch_unwind, AssertUnwindSafe};
use std::path::{Path, PathBuf};
use std::process::{Command, Stdio};
use std::sync::{Arc, Barrier};
use vcore::common::{panic_message, Opts};
use vcore::report::hash_str;
use vcore::sexp::*;

const STACK: usize = 64 << 20;

#[derive(Clone, Copy, Debug, PartialEq, Eq, PartialOrd, Ord)]
pub enum Entry {
    /// `generate_module_token_stream(query_path, schema_path, options)`
    File,
    /// `generate_module_token_stream_from_string(query_text, schema_path, options)`
    Str,
}

#[derive(Clone, Debug)]
pub struct Call {
    pub entry: Entry,
    /// query path (File) or query text (Str)
    pub query: String,
    pub schema: String,
    /// index into `option_sets()`
    pub opts: usize,
    /// how the paths are spelled / what kind of input this is (distribution, classification)
    pub note: String,
    /// the files the call is about, under their plain names ("" = none); not part of the call
    pub qfile: String,
    pub sfile: String,
}

/// A path of a history as the operating system sees it. Histories are written as UTF-8 text; the markers `%FF` and
/// `%FE` inside a file name stand for the single bytes 0xFF / 0xFE, which are not valid UTF-8: two file names that
/// differ only in such a byte are different files, and different cache keys.
pub fn os(p: &str) -> PathBuf {
    #[cfg(unix)]
    {
        use std::os::unix::ffi::OsStringExt;
        if p.contains("%FF") || p.contains("%FE") {
            let mut bytes = Vec::with_capacity(p.len());
            let b = p.as_bytes();
            let mut i = 0;
            while i < b.len() {
                if b[i] == b'%' && i + 2 < b.len() + 0 && (&b[i + 1..i + 3] == b"FF" || &b[i + 1..i + 3] == b"FE") {
                    bytes.push(if &b[i + 1..i + 3] == b"FF" { 0xFF } else { 0xFE });
                    i += 3;
                } else {
                    bytes.push(b[i]);
                    i += 1;
                }
            }
            return PathBuf::from(std::ffi::OsString::from_vec(bytes));
        }
    }
    PathBuf::from(p)
}

impl Call {
    pub fn spec(&self) -> Value {
        json!({"entry": if self.entry == Entry::File { "file" } else { "string" }, "query": self.query, "schema": self.schema, "opts": self.opts})
    }
    pub fn describe(&self) -> Value {
        let mut v = self.spec();
        if self.entry == Entry::Str && self.query.len() > 160 {
            v["query"] = json!(format!("{}… ({} bytes)", self.query.chars().take(160).collect::<String>(), self.query.len()));
        }
        v["note"] = json!(self.note);
        v
    }
    pub fn from_spec(v: &Value) -> Option<Call> {
        Some(Call {
            entry: if v["entry"] == json!("file") { Entry::File } else { Entry::Str },
            query: v["query"].as_str()?.to_string(),
            schema: v["schema"].as_str()?.to_string(),
            opts: v["opts"].as_u64()? as usize,
            note: v["note"].as_str().unwrap_or("").to_string(),
            qfile: v["qfile"].as_str().unwrap_or("").to_string(),
            sfile: v["sfile"].as_str().unwrap_or("").to_string(),
        })
    }
    pub fn to_sexp(&self) -> Sexp {
        match self.entry {
            Entry::File => tagged("file", vec![st(&self.query), st(&self.schema), st(&self.opts.to_string())]),
            Entry::Str => tagged("string", vec![st(&cid(&self.query)), st(&self.schema), st(&self.opts.to_string())]),
        }
    }
}

/// content id of a text
pub fn cid(text: &str) -> String {
    format!("c{:016x}", hash_str(text))
}

/// the option sets histories draw from
pub fn option_sets() -> Vec<Opts> {
    vec![
        Opts::default(),
        Opts::harness(),
        Opts { derive_mode: true, operation_name: Some("MyQuery".into()), struct_ident: Some("MyQuery".into()), ..Opts::default() },
        Opts { derive_mode: true, operation_name: Some("NoSuchOperation".into()), struct_ident: Some("NoSuchOperation".into()), ..Opts::default() },
        Opts { normalization_rust: true, ..Opts::harness() },
        Opts { skip_none: true, other_variant: true, deprecation: "deny", ..Opts::default() },
        // what the derive macro passes: derive mode and the `query_file` option (an `include_str!` of that path is emitted)
        Opts { derive_mode: true, operation_name: Some("MyQuery".into()), struct_ident: Some("MyQuery".into()), query_file: Some("/nonexistent/dir/q.graphql".into()), ..Opts::default() },
    ]
}

/// one observation of one call
#[derive(Clone, Debug)]
pub struct Obs {
    /// ok | err | panic | crash
    pub kind: String,
    pub hash: u64,
    /// token string (ok) or message (err, panic)
    pub text: String,
}

impl Obs {
    pub fn brief(&self) -> Value {
        let t: String = self.text.chars().take(200).collect();
        json!({"kind": self.kind, "hash": format!("{:016x}", self.hash), "len": self.text.len(), "text": t})
    }
}

/// the real library, one call, unwinding caught
pub fn run_call(c: &Call) -> Obs {
    let opts = option_sets()[c.opts % option_sets().len()].to_real();
    let r = catch_unwind(AssertUnwindSafe(|| match c.entry {
        Entry::File => graphql_client_codegen::generate_module_token_stream(os(&c.query), os(&c.schema).as_path(), opts),
        Entry::Str => graphql_client_codegen::generate_module_token_stream_from_string(&c.query, os(&c.schema).as_path(), opts),
    }));
    let (kind, text) = match r {
        Ok(Ok(ts)) => ("ok", ts.to_string()),
        Ok(Err(e)) => ("err", e.to_string()),
        Err(p) => ("panic", panic_message(p)),
    };
    Obs { kind: kind.into(), hash: hash_str(&text), text }
}

fn big_stack<T: Send + 'static>(f: impl FnOnce() -> T + Send + 'static) -> T {
    std::thread::Builder::new().stack_size(STACK).spawn(f).expect("spawn").join().expect("harness thread died")
}

/// (a) the whole history, one call after the other, in this process
pub fn run_sequential(calls: &[Call]) -> Vec<Obs> {
    let calls = calls.to_vec();
    big_stack(move || calls.iter().map(run_call).collect())
}

/// (b) thread `i` runs `progs[i]` (indices into `calls`); all threads are released by one barrier
pub fn run_threads(calls: &[Call], progs: &[Vec<usize>]) -> Vec<Vec<Obs>> {
    let barrier = Arc::new(Barrier::new(progs.len()));
    let mut handles = Vec::new();
    for prog in progs {
        let mine: Vec<Call> = prog.iter().map(|&i| calls[i].clone()).collect();
        let b = barrier.clone();
        handles.push(
            std::thread::Builder::new()
                .stack_size(STACK)
                .spawn(move || {
                    b.wait();
                    mine.iter().map(run_call).collect::<Vec<Obs>>()
                })
                .expect("spawn"),
        );
    }
    handles.into_iter().map(|h| h.join().expect("harness thread died")).collect()
}

/// `--single <spec>`: the call alone in this (fresh) process
pub fn single_main(spec: &str) {
    vcore::common::quiet_panics();
    let v: Value = serde_json::from_str(spec).expect("call spec");
    let c = Call::from_spec(&v).expect("call spec");
    let o = big_stack(move || run_call(&c));
    println!("{}", json!({"kind": o.kind, "hash": format!("{:016x}", o.hash), "text": o.text}));
}

fn spawn_single(c: &Call) -> Obs {
    let exe = std::env::current_exe().expect("current_exe");
    let out = Command::new(exe).arg("--single").arg(c.spec().to_string()).stdin(Stdio::null()).stderr(Stdio::null()).output();
    let crash = |why: String| Obs { kind: "crash".into(), hash: 0, text: why };
    match out {
        Err(e) => crash(format!("spawn: {}", e)),
        Ok(out) => {
            if !out.status.success() {
                return crash(format!("exit status {:?}", out.status));
            }
            let s = String::from_utf8_lossy(&out.stdout);
            match serde_json::from_str::<Value>(s.trim()) {
                Ok(v) => {
                    let text = v["text"].as_str().unwrap_or("").to_string();
                    let o = Obs { kind: v["kind"].as_str().unwrap_or("crash").to_string(), hash: hash_str(&text), text };
                    // the child's own hash must be the hash of what arrived
                    if v["hash"].as_str() != Some(&format!("{:016x}", o.hash)) {
                        return crash("hash mismatch between child and parent".into());
                    }
                    o
                }
                Err(_) => crash("unparsable child output".into()),
            }
        }
    }
}

/// (c) every call alone in a fresh process; identical call specs of one batch are run once
pub struct AloneRunner {
    pub spawned: u64,
}

impl AloneRunner {
    pub fn new() -> AloneRunner {
        AloneRunner { spawned: 0 }
    }
    pub fn run_all(&mut self, calls: &[Call]) -> Vec<Obs> {
        let mut distinct: Vec<(String, &Call)> = Vec::new();
        for c in calls {
            let k = c.spec().to_string();
            if !distinct.iter().any(|(k2, _)| *k2 == k) {
                distinct.push((k, c));
            }
        }
        self.spawned += distinct.len() as u64;
        let workers = 8usize;
        let results: Vec<Obs> = std::thread::scope(|s| {
            let mut hs = Vec::new();
            for w in 0..workers.min(distinct.len()) {
                let mine: Vec<&Call> = distinct.iter().enumerate().filter(|(i, _)| i % workers == w).map(|(_, (_, c))| *c).collect();
                hs.push(s.spawn(move || mine.into_iter().map(spawn_single).collect::<Vec<Obs>>()));
            }
            let per_worker: Vec<Vec<Obs>> = hs.into_iter().map(|h| h.join().expect("worker")).collect();
            (0..distinct.len()).map(|i| per_worker[i % workers][i / workers].clone()).collect()
        });
        calls
            .iter()
            .map(|c| {
                let k = c.spec().to_string();
                let i = distinct.iter().position(|(k2, _)| *k2 == k).unwrap();
                results[i].clone()
            })
            .collect()
    }
}

/// the value of the generator on *contents*: query text, schema text, schema format, options —
/// evaluated once, alone in a fresh process, over reference files that no history ever names
pub struct RefTable {
    table: BTreeMap<(Entry, String, String, bool, usize), Obs>,
}

impl RefTable {
    pub fn new() -> RefTable {
        RefTable { table: BTreeMap::new() }
    }
    pub fn len(&self) -> usize {
        self.table.len()
    }
    pub fn get(&mut self, alone: &mut AloneRunner, entry: Entry, qtext: &str, stext: &str, json: bool, opts: usize) -> Obs {
        let key = (entry, cid(qtext), cid(stext), json, opts);
        if let Some(o) = self.table.get(&key) {
            return o.clone();
        }
        std::fs::create_dir_all("ref").expect("ref dir");
        let spath = format!("ref/s_{}.{}", key.2, if json { "json" } else { "graphql" });
        if !Path::new(&spath).exists() {
            std::fs::write(&spath, stext).expect("write ref schema");
        }
        let query = match entry {
            Entry::File => {
                let qpath = format!("ref/q_{}.graphql", key.1);
                if !Path::new(&qpath).exists() {
                    std::fs::write(&qpath, qtext).expect("write ref query");
                }
                qpath
            }
            Entry::Str => qtext.to_string(),
        };
        let c = Call { entry, query, schema: spath, opts, note: "reference".into(), qfile: String::new(), sfile: String::new() };
        let o = alone.run_all(&[c]).pop().unwrap();
        self.table.insert(key, o.clone());
        o
    }
}

/// what the external parsers say about a text (parameters of the model): parses as a query document,
/// as an SDL schema document, as an introspection response
pub fn parser_verdicts(text: &str) -> (bool, bool, bool) {
    let q = graphql_parser::parse_query::<String>(text).is_ok();
    let s = graphql_parser::parse_schema::<String>(text).is_ok();
    let j = serde_json::from_str::<graphql_introspection_query::introspection_response::IntrospectionResponse>(text).is_ok();
    (q, s, j)
}
