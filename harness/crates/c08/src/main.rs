//! C08 — codegen is a pure function of its inputs across calls, threads and processes.
//!
//! Real histories of `generate_module_token_stream{,_from_string}` calls over directories of generated
//! schema / query files, executed (a) sequentially in this process, (b) on 2..16 threads released by a
//! barrier, (c) each call alone in a fresh process (`--single`).  Oracle (implementation alone): every
//! outcome of (a) and (b) is identical to (c) — same kind and, for ok, the identical token string; and
//! the outcome alone is the same as the outcome of the same *contents* under other paths in another
//! fresh process.  Tie: the Lean model (`cache-run`, `cache-interleave`) says for every call whether a
//! loader fails or which (query content, schema content, format, options) the result is generated
//! from; that must be what the implementation returned.
mod gen;
mod run;

use gen::*;
use run::*;
use serde_json::{json, Value};
use std::collections::{BTreeMap, BTreeSet};
use std::path::PathBuf;
use vcore::gen::rng::Rng;
use vcore::model::Model;
use vcore::report::{hash_str, parse_args, Report};
use vcore::sexp::*;

/// what the harness knows about the process-wide caches of *this* process (from the model's replies):
/// only keys under `common/` survive a history (every other directory is never used again)
#[derive(Default)]
struct ProcState {
    q: BTreeSet<String>,
    s: BTreeSet<String>,
}

struct Ctx {
    rep: Report,
    model: Model,
    alone: AloneRunner,
    refs: RefTable,
    proc_state: ProcState,
    work: PathBuf,
}

/// (kind, hash) — the identity of an outcome as the property sees it
fn ident(o: &Obs) -> (String, u64) {
    (o.kind.clone(), if o.kind == "ok" { o.hash } else { 0 })
}

fn classify(call: &Call, mode: &str, got: &Obs) -> String {
    if got.kind == "panic" && got.text.contains("poisoned") {
        return "lock-poisoned-after-failed-call".into();
    }
    let trailing = |s: &str| s.ends_with('/') || s.ends_with("/.");
    let alias = |s: &str| s.contains("/./") || s.contains("//") || s.contains("/../");
    let paths: Vec<&str> = if call.entry == Entry::File { vec![&call.query, &call.schema] } else { vec![&call.schema] };
    let c = if paths.iter().any(|p| trailing(p)) {
        Some("path-trailing-slash-alias")
    } else if paths.iter().any(|p| alias(p)) {
        Some("path-alias")
    } else {
        None
    };
    match c {
        Some(c) => c.to_string(),
        None => format!("{}-differs-from-fresh-process", mode),
    }
}

impl Ctx {
    /// the model's view of the world for a set of calls: observed file system + parser verdicts
    fn world(&self, calls: &[&Call], init: &ProcState) -> (Sexp, Sexp, Sexp, BTreeMap<String, String>) {
        let mut paths: BTreeSet<String> = BTreeSet::new();
        let mut texts: BTreeMap<String, String> = BTreeMap::new(); // cid -> text
        for c in calls {
            if c.entry == Entry::File {
                paths.insert(c.query.clone());
            } else {
                texts.insert(cid(&c.query), c.query.clone());
            }
            paths.insert(c.schema.clone());
        }
        paths.extend(init.q.iter().cloned());
        paths.extend(init.s.iter().cloned());
        let mut fs = Vec::new();
        for p in &paths {
            // exactly what `read_file` observes
            if let Ok(text) = std::fs::read_to_string(os(p)) {
                fs.push(tagged("file", vec![st(p), st(&cid(&text))]));
                texts.insert(cid(&text), text);
            }
        }
        let parse: Vec<Sexp> = texts
            .iter()
            .map(|(id, text)| {
                let (q, s, j) = parser_verdicts(text);
                list(vec![st(id), boolean(q), boolean(s), boolean(j)])
            })
            .collect();
        let init_s = tagged(
            "init",
            vec![tagged("q", init.q.iter().map(|p| st(p)).collect()), tagged("s", init.s.iter().map(|p| st(p)).collect())],
        );
        (tagged("fs", fs), tagged("parse", parse), init_s, texts)
    }

    /// model reply for one call -> the outcome the implementation must show (through the reference table)
    fn expected_of(&mut self, m: &Sexp, call: &Call, texts: &BTreeMap<String, String>) -> Option<(String, u64)> {
        match m.head() {
            Some("panic") => Some(("panic".into(), 0)),
            Some("err") => Some(("err".into(), 0)),
            Some("gen") => {
                let it = m.items();
                let (q, s, fmt, o) = (it[1].as_str()?, it[2].as_str()?, it[3].as_str()?, it[4].as_str()?);
                let r = self.refs.get(&mut self.alone, call.entry, texts.get(q)?, texts.get(s)?, fmt == "json", o.parse().ok()?);
                Some(ident(&r))
            }
            _ => None,
        }
    }

    /// one history through (c), then (a) and (b) in the order the history asks for
    fn run_history(&mut self, h: &Hist, reps: usize, rng: &mut Rng) {
        let mut h = h.clone();
        h.warm_q = self.proc_state.q.iter().cloned().collect();
        h.warm_s = self.proc_state.s.iter().cloned().collect();
        let h = &h;
        for t in &h.tags {
            self.rep.count(&format!("history:{}", t));
        }
        self.rep.count(&format!("history-length:{:02}", h.calls.len()));
        // (c) every distinct call alone in a fresh process — first, so that a call that kills its
        // process (stack overflow: property C17) never runs inside the driver
        let alone: Vec<Obs> = self.alone.run_all(&h.calls);
        for (c, o) in h.calls.iter().zip(alone.iter()) {
            self.rep.count(&format!("alone-kind:{}", o.kind));
            self.rep.count(&format!("entry:{}", if c.entry == Entry::File { "path" } else { "string" }));
            self.rep.count(&format!("note:{}", c.note));
        }
        if alone.iter().any(|o| o.kind == "crash") {
            self.rep.count("skipped:call-crashes-its-own-process");
            return;
        }
        let mut local = ProcState { q: self.proc_state.q.clone(), s: self.proc_state.s.clone() };
        let order: Vec<&str> = if h.threads_first { vec!["b", "a"] } else { vec!["a", "b"] };
        for mode in order {
            if mode == "a" {
                self.mode_seq(h, &alone, &mut local);
            } else {
                for rep_i in 0..reps {
                    let t = match rep_i {
                        0 => rng.range(2, 16),
                        _ => *rng.pick(&[2usize, 3, 4, 8, 16]),
                    };
                    self.mode_threads(h, &alone, &mut local, t, rng, "threads");
                }
            }
        }
        // what stays in the process: entries of the common directory
        let common = format!("{}/", COMMON);
        for p in local.q {
            if p.contains(&common) {
                self.proc_state.q.insert(p);
            }
        }
        for p in local.s {
            if p.contains(&common) {
                self.proc_state.s.insert(p);
            }
        }
    }

    fn nontrivial(h: &Hist, alone: &[Obs]) -> bool {
        // cache interaction exists: some file is touched by two calls, and the history mixes outcomes or spellings
        let mut seen: BTreeSet<&str> = BTreeSet::new();
        let mut shared = false;
        for c in &h.calls {
            for f in [&c.qfile, &c.sfile] {
                if !f.is_empty() && !seen.insert(f.as_str()) {
                    shared = true;
                }
            }
        }
        let kinds: BTreeSet<&str> = alone.iter().map(|o| o.kind.as_str()).collect();
        shared && (kinds.len() > 1 || h.calls.iter().any(|c| c.note != "plain"))
    }

    /// (a) the whole history sequentially in this process
    fn mode_seq(&mut self, h: &Hist, alone: &[Obs], local: &mut ProcState) {
        let got: Vec<Obs> = run_sequential(&h.calls);
        let key = format!("seq|{}|{}", h.idx, hash_str(&serde_json::to_string(&h.describe_calls()).unwrap()));
        self.rep.case(if Self::nontrivial(h, alone) { Some(&key) } else { None });
        self.rep.count("mode:sequential");
        self.rep.count_n("calls:sequential", h.calls.len() as u64);
        let mut failed_before = false;
        let mut oracle_ok = true;
        for (i, (g, a)) in got.iter().zip(alone.iter()).enumerate() {
            if failed_before && a.kind == "ok" {
                self.rep.count("seq:ok-call-after-failed-call");
            }
            if a.kind != "ok" {
                failed_before = true;
            }
            if ident(g) != ident(a) || (g.kind == "ok" && g.text != a.text) {
                oracle_ok = false;
                let class = classify(&h.calls[i], "sequential", g);
                self.rep.fail(
                    &class,
                    json!({"mode": "sequential", "history": h.to_case(), "call_index": i,
                           "call": h.calls[i].describe(), "in_history": g.brief(), "alone_in_fresh_process": a.brief()}),
                );
            }
        }
        // "same result as call j" on the implementation
        let rel = |xs: &[(String, u64)]| -> Vec<usize> { xs.iter().map(|x| xs.iter().position(|y| y == x).unwrap()).collect() };
        let impl_ids: Vec<(String, u64)> = got.iter().map(ident).collect();
        // model
        let calls: Vec<&Call> = h.calls.iter().collect();
        let (fs, parse, init, texts) = self.world(&calls, local);
        let reply = self.model.ask(&tagged(
            "cache-run",
            vec![fs, parse, init, tagged("calls", h.calls.iter().map(|c| c.to_sexp()).collect())],
        ));
        if reply.head() == Some("nomodel") {
            return;
        }
        let items = reply.items();
        if items.len() != 2 || items[0].head() != Some("outcomes") || items[0].items().len() != h.calls.len() + 1 {
            self.rep.internal.push(format!("cache-run reply: {}", reply.short(300)));
            return;
        }
        let mut model_ids = Vec::new();
        let mut agree = true;
        for (i, m) in items[0].items().iter().skip(1).enumerate() {
            match self.expected_of(m, &h.calls[i], &texts) {
                Some(e) => {
                    if e != impl_ids[i] {
                        agree = false;
                        self.rep.disagree(json!({"mode": "sequential", "history": h.to_case(), "call_index": i,
                            "call": h.calls[i].describe(), "model": m.short(200), "model_expects": format!("{:?}", e),
                            "implementation": got[i].brief()}));
                    }
                    model_ids.push(e);
                }
                None => {
                    self.rep.internal.push(format!("model outcome not understood: {}", m.short(200)));
                    return;
                }
            }
        }
        if rel(&model_ids) != rel(&impl_ids) {
            agree = false;
            self.rep.disagree(json!({"mode": "sequential", "history": h.to_case(), "what": "same-result-as relation",
                "model": rel(&model_ids), "implementation": rel(&impl_ids)}));
        }
        if agree && oracle_ok {
            self.rep.traces_validated += 1;
        }
        if self.rep.samples.len() < 3 && h.calls.len() >= 4 && got.iter().any(|g| g.kind != "ok") {
            self.rep.sample(json!({"mode": "sequential", "calls": h.describe_calls(),
                "outcomes": got.iter().map(|g| g.brief()).collect::<Vec<_>>(),
                "model": items[0].items().iter().skip(1).map(|m| m.short(80)).collect::<Vec<_>>()}));
        }
        absorb_state(&items[1], local);
    }

    /// (b) the calls of the history dealt to `t` threads, all released by one barrier
    fn mode_threads(&mut self, h: &Hist, alone: &[Obs], local: &mut ProcState, t: usize, rng: &mut Rng, tag: &str) {
        // deal: every thread gets 1..4 calls; the history is repeated until there are enough
        let per = rng.range(1, 4);
        let mut idxs: Vec<usize> = Vec::new();
        while idxs.len() < t * per {
            let mut round: Vec<usize> = (0..h.calls.len()).collect();
            rng.shuffle(&mut round);
            idxs.extend(round);
        }
        idxs.truncate((t * per).max(h.calls.len().min(t * 4)));
        let mut progs: Vec<Vec<usize>> = vec![vec![]; t];
        for (k, i) in idxs.iter().enumerate() {
            progs[k % t].push(*i);
        }
        let got = run_threads(&h.calls, &progs);
        let key = format!("{}|{}|{}|{:?}", tag, h.idx, t, progs);
        self.rep.case(if Self::nontrivial(h, alone) || tag == "soak" { Some(&key) } else { None });
        self.rep.count(&format!("mode:{}", tag));
        self.rep.count(&format!("threads:{:02}", t));
        self.rep.count_n(&format!("calls:{}", tag), idxs.len() as u64);
        let mut oracle_ok = true;
        for (ti, prog) in progs.iter().enumerate() {
            for (k, &ci) in prog.iter().enumerate() {
                let g = &got[ti][k];
                let a = &alone[ci];
                if ident(g) != ident(a) || (g.kind == "ok" && g.text != a.text) {
                    oracle_ok = false;
                    let class = classify(&h.calls[ci], "threads", g);
                    self.rep.fail(
                        &class,
                        json!({"mode": "threads", "history": h.to_case(), "threads": t, "programs": progs, "thread": ti, "position": k,
                               "call_index": ci, "call": h.calls[ci].describe(), "on_thread": g.brief(), "alone_in_fresh_process": a.brief()}),
                    );
                }
            }
        }
        // model: one pseudo-random schedule of the small-step semantics (the theorem covers all of them)
        let calls: Vec<&Call> = h.calls.iter().collect();
        let (fs, parse, init, texts) = self.world(&calls, local);
        let threads = tagged("threads", progs.iter().map(|p| list(p.iter().map(|&i| h.calls[i].to_sexp()).collect())).collect());
        let seed = rng.next() % 1_000_000_007;
        let reply = self.model.ask(&tagged("cache-interleave", vec![fs, parse, init, threads, atom(&seed.to_string())]));
        if reply.head() == Some("nomodel") {
            return;
        }
        let items = reply.items();
        if items.len() != 5 || items[0].head() != Some("threads") || items[0].items().len() != t + 1 {
            self.rep.internal.push(format!("cache-interleave reply: {}", reply.short(300)));
            return;
        }
        if items[1].items().get(1).and_then(|x| x.as_str()) != Some("true") {
            self.rep.internal.push("model schedule did not complete".into());
            return;
        }
        if let Some(n) = items[3].items().get(1).and_then(|x| x.as_str()).and_then(|x| x.parse::<u64>().ok()) {
            self.rep.count_n("model:lost-insertion-races", n);
        }
        let mut agree = true;
        for (ti, prog) in progs.iter().enumerate() {
            let ms = items[0].items()[ti + 1].items();
            if ms.len() != prog.len() {
                self.rep.internal.push("model thread outcome count".into());
                return;
            }
            for (k, &ci) in prog.iter().enumerate() {
                match self.expected_of(&ms[k], &h.calls[ci], &texts) {
                    Some(e) => {
                        if e != ident(&got[ti][k]) {
                            agree = false;
                            self.rep.disagree(json!({"mode": "threads", "history": h.to_case(), "threads": t, "programs": progs,
                                "thread": ti, "position": k, "model": ms[k].short(200), "model_expects": format!("{:?}", e),
                                "implementation": got[ti][k].brief()}));
                        }
                    }
                    None => {
                        self.rep.internal.push(format!("model outcome not understood: {}", ms[k].short(200)));
                        return;
                    }
                }
            }
        }
        if agree && oracle_ok {
            self.rep.traces_validated += 1;
        }
        absorb_state(&items[4], local);
    }

    /// on the implementation alone: the result depends on the contents only (`no_stale_alias`) — the
    /// call alone equals the same contents under reference paths in another fresh process
    fn content_oracle(&mut self, h: &Hist) {
        let alone: Vec<Obs> = self.alone.run_all(&h.calls);
        for (c, a) in h.calls.iter().zip(alone.iter()) {
            if a.kind == "crash" {
                continue;
            }
            let qtext = if c.entry == Entry::File { std::fs::read_to_string(os(&c.query)).ok() } else { Some(c.query.clone()) };
            let stext = std::fs::read_to_string(os(&c.schema)).ok();
            if let (Some(q), Some(s)) = (qtext, stext) {
                let fmt = match std::path::Path::new(&c.schema).extension().and_then(|e| e.to_str()) {
                    Some("json") => true,
                    Some("graphql") | Some("graphqls") | Some("gql") => false,
                    _ => continue,
                };
                let r = self.refs.get(&mut self.alone, c.entry, &q, &s, fmt, c.opts);
                self.rep.count("content-oracle:compared");
                if ident(&r) != ident(a) || (r.kind == "ok" && r.text != a.text) {
                    self.rep.fail(
                        "result-depends-on-path-not-content",
                        json!({"mode": "content", "history": h.to_case(), "call": c.describe(), "alone": a.brief(), "same_contents_other_paths": r.brief()}),
                    );
                }
            }
        }
    }
}

fn absorb_state(state: &Sexp, local: &mut ProcState) {
    let it = state.items();
    if it.len() == 3 {
        for p in it[1].items().iter().skip(1) {
            if let Some(p) = p.as_str() {
                local.q.insert(p.to_string());
            }
        }
        for p in it[2].items().iter().skip(1) {
            if let Some(p) = p.as_str() {
                local.s.insert(p.to_string());
            }
        }
    }
}

fn replay(ctx: &mut Ctx, file: &PathBuf, rng: &mut Rng) {
    let v: Value = match std::fs::read_to_string(file).ok().and_then(|s| serde_json::from_str(&s).ok()) {
        Some(v) => v,
        None => {
            ctx.rep.internal.push(format!("cannot read replay file {}", file.display()));
            return;
        }
    };
    let case = &v["case"];
    let hist = match Hist::from_case(&case["history"], 900_000) {
        Some(h) => h,
        None => {
            ctx.rep.internal.push("replay file has no history (an obligation-level replay has nothing to re-run)".into());
            return;
        }
    };
    // re-create the warm entries the failing process had
    for p in case["history"]["warm_q"].as_array().cloned().unwrap_or_default() {
        if let Some(p) = p.as_str() {
            let p = p.replace("$ROOT", ".");
            let c = Call { entry: Entry::File, query: p.clone(), schema: "no-such-dir/none.graphql".into(), opts: 0, note: "warm".into(), qfile: String::new(), sfile: String::new() };
            run_sequential(&[c]);
            ctx.proc_state.q.insert(p);
        }
    }
    for p in case["history"]["warm_s"].as_array().cloned().unwrap_or_default() {
        if let Some(p) = p.as_str() {
            let p = p.replace("$ROOT", ".");
            let c = Call { entry: Entry::Str, query: "query W { __typename }".into(), schema: p.clone(), opts: 0, note: "warm".into(), qfile: String::new(), sfile: String::new() };
            run_sequential(&[c]);
            ctx.proc_state.s.insert(p);
        }
    }
    if case["mode"] == json!("threads") {
        // the recorded thread count first, then the usual repetitions
        let mut h2 = hist.clone();
        h2.threads_first = true;
        ctx.run_history(&h2, 4, rng);
    } else {
        ctx.run_history(&hist, 2, rng);
    }
    ctx.content_oracle(&hist);
}

fn main() {
    let argv: Vec<String> = std::env::args().skip(1).collect();
    if argv.first().map(|s| s.as_str()) == Some("--single") {
        single_main(&argv[1]);
        return;
    }
    if argv.first().map(|s| s.as_str()) != Some("C08") {
        eprintln!("usage: vdrive_c08 C08 --tier quick|thorough --seed N --out <file> [--replay <file>]");
        std::process::exit(2);
    }
    let a = parse_args(&argv[1..]);
    let rep = Report::new(
        "C08",
        &a,
        "a case is one history (3-12 generation calls over a directory of generated schema/query files; the soak runs: 16 threads x 3-6 calls on the same cold files) in one execution mode: sequentially in the driver process, or dealt to 2..16 threads behind a barrier (several deals per history); every call's outcome (kind + token string) is compared with the same call alone in a fresh process, and with the Lean model's prediction; non-trivial = two calls of the history touch the same file and the history mixes outcome kinds or path spellings (every soak run is non-trivial)",
    );
    vcore::common::quiet_panics();
    let work = vcore::common::work_dir();
    std::env::set_current_dir(&work).expect("chdir to the work directory");
    let mut ctx = Ctx {
        rep,
        model: Model::spawn(),
        alone: AloneRunner::new(),
        refs: RefTable::new(),
        proc_state: ProcState::default(),
        work: work.clone(),
    };
    let mut rng = Rng::new(a.seed);
    let thorough = ctx.rep.thorough();
    let t0 = std::time::Instant::now();

    if let Some(file) = &a.replay {
        replay(&mut ctx, file, &mut rng);
    } else {
        let common = make_common(&mut rng.fork());
        // 1. fixed witnesses of the regression classes (poisoning, trailing slash, equal base names, ...)
        let mut idx = 0;
        for h in witness_histories(&mut idx) {
            ctx.run_history(&h, 2, &mut rng);
            ctx.content_oracle(&h);
        }
        // 2. generated histories
        let n = if thorough { 5000 } else { 170 };
        for _ in 0..n {
            let mut r = rng.fork();
            let h = random_history(&mut r, idx, &common);
            idx += 1;
            ctx.run_history(&h, if thorough { 3 } else { 2 }, &mut r);
            if idx % 4 == 0 {
                ctx.content_oracle(&h);
            }
            if !thorough && t0.elapsed().as_secs() > 70 {
                ctx.rep.count("stopped-early:time-budget");
                break;
            }
            // the files of a finished history are never used again
            let _ = std::fs::remove_dir_all(&h.root);
        }
        // 3. 16-thread runs on cold files (+ soak in the thorough tier)
        let runs = if thorough { 200 } else { 6 };
        let soak_until = std::time::Duration::from_secs(if thorough { 90 } else { 0 });
        let t1 = std::time::Instant::now();
        let mut k = 0;
        while k < runs || t1.elapsed() < soak_until {
            let mut r = rng.fork();
            let h = soak_history(&mut r, idx);
            idx += 1;
            k += 1;
            let alone: Vec<Obs> = ctx.alone.run_all(&h.calls);
            if alone.iter().any(|o| o.kind == "crash") {
                ctx.rep.count("skipped:call-crashes-its-own-process");
                continue;
            }
            let mut local = ProcState { q: ctx.proc_state.q.clone(), s: ctx.proc_state.s.clone() };
            ctx.mode_threads(&h, &alone, &mut local, 16, &mut r, "soak");
            let _ = std::fs::remove_dir_all(&h.root);
        }
        ctx.rep.extra.insert("soak_runs".into(), json!(k));
    }
    ctx.rep.extra.insert("fresh_processes".into(), json!(ctx.alone.spawned));
    ctx.rep.extra.insert("reference_evaluations".into(), json!(ctx.refs.len()));
    ctx.rep.extra.insert("model_requests".into(), json!(ctx.model.requests));
    ctx.rep.extra.insert(
        "note".into(),
        json!("the OS scheduler is exercised (threads behind a barrier); what is proved is the lock discipline, for every schedule"),
    );
    let work = ctx.work.clone();
    let code = ctx.rep.finish();
    let _ = std::env::set_current_dir("/");
    let _ = std::fs::remove_dir_all(&work);
    std::process::exit(code);
}
