//! Histories: directories of generated schema / query files and sequences of calls over them.
//! A path's content never changes once written; every history has its own directory, plus a shared
//! `common/` directory whose cache entries live as long as the driver process.
use crate::run::*;
use serde_json::{json, Value};
use vcore::gen::op::{random_doc, OpKnobs};
use vcore::gen::rng::Rng;
use vcore::gen::schema::{random_schema, RenderKnobs, SchemaKnobs};

pub const COMMON: &str = "common";

#[derive(Clone, Debug)]
pub struct Hist {
    pub idx: usize,
    pub root: String,
    /// (path, text) of every file the history may name (its own and the common ones)
    pub files: Vec<(String, String)>,
    pub dirs: Vec<String>,
    pub calls: Vec<Call>,
    pub tags: Vec<String>,
    /// run the threaded mode first (on cold caches), the sequential mode after it
    pub threads_first: bool,
    pub warm_q: Vec<String>,
    pub warm_s: Vec<String>,
}

fn cwd() -> String {
    std::env::current_dir().unwrap().to_string_lossy().to_string()
}

impl Hist {
    pub fn describe_calls(&self) -> Vec<Value> {
        self.calls.iter().map(|c| c.describe()).collect()
    }
    /// everything needed to re-create and re-run the history elsewhere (`$W` = the work directory)
    pub fn to_case(&self) -> Value {
        let w = cwd();
        let sub = |s: &str| s.replace(&w, "$W");
        json!({
            "root": sub(&self.root),
            "files": self.files.iter().map(|(p, t)| json!({"path": sub(p), "text": t})).collect::<Vec<_>>(),
            "dirs": self.dirs.iter().map(|d| sub(d)).collect::<Vec<_>>(),
            "calls": self.calls.iter().map(|c| {
                let mut v = c.spec();
                if c.entry == Entry::File { v["query"] = json!(sub(&c.query)); }
                v["schema"] = json!(sub(&c.schema));
                v["note"] = json!(c.note); v["qfile"] = json!(sub(&c.qfile)); v["sfile"] = json!(sub(&c.sfile));
                v
            }).collect::<Vec<_>>(),
            "threads_first": self.threads_first,
            "warm_q": self.warm_q.iter().map(|d| sub(d)).collect::<Vec<_>>(),
            "warm_s": self.warm_s.iter().map(|d| sub(d)).collect::<Vec<_>>(),
        })
    }
    pub fn from_case(v: &Value, idx: usize) -> Option<Hist> {
        let w = cwd();
        let sub = |s: &str| s.replace("$W", &w);
        let mut h = Hist { idx, root: sub(v["root"].as_str()?), files: vec![], dirs: vec![], calls: vec![], tags: vec!["replay".into()],
            threads_first: v["threads_first"].as_bool().unwrap_or(false), warm_q: vec![], warm_s: vec![] };
        for d in v["dirs"].as_array()? {
            h.dirs.push(sub(d.as_str()?));
        }
        for f in v["files"].as_array()? {
            h.files.push((sub(f["path"].as_str()?), f["text"].as_str()?.to_string()));
        }
        for c in v["calls"].as_array()? {
            let mut c = Call::from_spec(c)?;
            if c.entry == Entry::File {
                c.query = sub(&c.query);
            }
            c.schema = sub(&c.schema);
            c.qfile = sub(&c.qfile);
            c.sfile = sub(&c.sfile);
            h.calls.push(c);
        }
        h.materialise();
        Some(h)
    }
    /// write the files (never overwriting an existing one: contents of a path do not change)
    pub fn materialise(&self) {
        for d in &self.dirs {
            std::fs::create_dir_all(d).expect("mkdir");
        }
        for (p, t) in &self.files {
            if let Some(parent) = std::path::Path::new(p).parent() {
                std::fs::create_dir_all(parent).expect("mkdir");
            }
            if !os(p).exists() {
                std::fs::write(os(p), t).expect("write");
            }
        }
    }
}

/// a file a call may name
#[derive(Clone, Debug)]
struct Target {
    dir: String,
    name: String,
    /// query | schema | bad | missing | unsupported
    kind: &'static str,
    text: Option<String>,
}

impl Target {
    fn plain(&self) -> String {
        format!("{}/{}", self.dir, self.name)
    }
}

/// the spellings of one file; 6 and 7 are refused by the OS (the file is not a directory)
fn spell(t: &Target, how: usize) -> (String, &'static str) {
    let (d, n) = (&t.dir, &t.name);
    match how {
        0 => (format!("{}/{}", d, n), "plain"),
        1 => (format!("{}/./{}", d, n), "alias:dot"),
        2 => (format!("{}/sub/../{}", d, n), "alias:sub-dotdot"),
        3 => (format!("{}//{}", d, n), "alias:double-slash"),
        4 => {
            // `x/../x/name`
            let last = d.rsplit('/').next().unwrap_or(d);
            (format!("{}/../{}/{}", d, last, n), "alias:up-down")
        }
        5 => (format!("{}/./sub/.././{}", d, n), "alias:mixed"),
        6 => (format!("{}/{}/", d, n), "trailing-slash"),
        _ => (format!("{}/{}/.", d, n), "trailing-slash-dot"),
    }
}

fn random_spelling(rng: &mut Rng, t: &Target) -> (String, &'static str) {
    let how = match rng.below(100) {
        0..=54 => 0,
        55..=64 => 1,
        65..=72 => 2,
        73..=79 => 3,
        80..=85 => 4,
        86..=90 => 5,
        91..=95 => 6,
        _ => 7,
    };
    spell(t, how)
}

pub struct SchemaSet {
    pub sdl: String,
    /// a second version of the same schema: every object type has one more field, declared FIRST (all later
    /// fields get other positions); every query written for `sdl` is valid against it too
    pub sdl_v2: String,
    pub json: String,
    pub queries: Vec<String>,
}

pub fn schema_set(rng: &mut Rng, n_queries: usize) -> SchemaSet {
    let k = SchemaKnobs { keywords_as_names: rng.chance(40), ..SchemaKnobs::default() };
    let s = random_schema(rng, &k);
    let rk = RenderKnobs { json_wrapped: rng.chance(50), use_extend: rng.chance(30), ..RenderKnobs::default() };
    let sdl = s.to_sdl(&rk);
    let json = serde_json::to_string_pretty(&s.to_json(&rk)).unwrap();
    let mut s2 = s.clone();
    for t in s2.types.iter_mut() {
        if let vcore::gen::schema::AType::Object { fields, .. } = t {
            fields.insert(0, vcore::gen::schema::AField { name: "zzInsertedFirst".into(), ty: vcore::gen::schema::ATy::NonNull(Box::new(vcore::gen::schema::ATy::named("ID"))), dep: None });
        }
    }
    let sdl_v2 = s2.to_sdl(&rk);
    // recursive fragments are C17's subject (a stack overflow would kill the driver process)
    let ok = OpKnobs { recursive_fragments: false, ..OpKnobs::default() };
    let queries = (0..n_queries).map(|_| random_doc(rng, &s, &ok).render()).collect();
    SchemaSet { sdl, sdl_v2, json, queries }
}

pub struct Common {
    pub files: Vec<(String, String)>,
    targets_q: Vec<Target>,
    targets_s: Vec<Target>,
}

/// the shared directory: written once, its cache entries are seen by every later history
pub fn make_common(rng: &mut Rng) -> Common {
    let a = schema_set(rng, 2);
    let b = schema_set(rng, 1);
    let abs = format!("{}/{}", cwd(), COMMON);
    let mut c = Common { files: vec![], targets_q: vec![], targets_s: vec![] };
    let add = |c: &mut Common, dir: &str, name: &str, kind: &'static str, text: &str, is_q: bool| {
        let t = Target { dir: dir.to_string(), name: name.to_string(), kind, text: Some(text.to_string()) };
        c.files.push((t.plain(), text.to_string()));
        if is_q {
            c.targets_q.push(t)
        } else {
            c.targets_s.push(t)
        }
    };
    let (da, db) = (format!("{}/a", COMMON), format!("{}/b", COMMON));
    add(&mut c, &da, "schema.graphql", "schema", &a.sdl, false);
    add(&mut c, &da, "schema.json", "schema", &a.json, false);
    add(&mut c, &db, "schema.graphql", "schema", &b.sdl, false);
    add(&mut c, &da, "q.graphql", "query", &a.queries[0], true);
    add(&mut c, &da, "q2.graphql", "query", &a.queries[1], true);
    add(&mut c, &db, "q.graphql", "query", &b.queries[0], true);
    // the same files are also named through the absolute spelling of the directory (other keys)
    for t in c.targets_q.clone() {
        c.targets_q.push(Target { dir: t.dir.replace(COMMON, &abs), ..t });
    }
    for t in c.targets_s.clone() {
        c.targets_s.push(Target { dir: t.dir.replace(COMMON, &abs), ..t });
    }
    let h = Hist { idx: 0, root: COMMON.into(), files: c.files.clone(), dirs: vec![format!("{}/sub", da), format!("{}/sub", db)],
        calls: vec![], tags: vec![], threads_first: false, warm_q: vec![], warm_s: vec![] };
    h.materialise();
    c
}

const BAD_TEXTS: [&str; 4] = ["type Query {{ oops", "query { unterminated", "", "{ \"data\": "];

struct Layout {
    files: Vec<(String, String)>,
    dirs: Vec<String>,
    q_good: Vec<Target>,   // queries written for schema A (dir d1)
    q_other: Vec<Target>,  // query written for schema B (dir d2), same base name as q_good[0]
    s_good: Vec<Target>,   // schema A in its formats
    s_other: Vec<Target>,  // schema B, same base name as s_good[0]
    s_v2: Vec<Target>,     // a second version of schema A (same queries are valid, other code)
    bad: Vec<Target>,
    missing: Vec<Target>,
    unsupported: Vec<Target>,
    q_many: Vec<Target>,   // 20 query files with pairwise different text
    s_many: Vec<Target>,   // 20 schema files; files i and i+16 differ in content
    q_bytes: Vec<Target>,  // two query files whose names differ in one non-UTF-8 byte
    s_bytes: Vec<Target>,  // two schema files (different versions) whose names differ in one non-UTF-8 byte
}

fn layout(rng: &mut Rng, root: &str) -> Layout {
    let a = schema_set(rng, 2);
    let b = schema_set(rng, 1);
    let (d1, d2) = (format!("{}/d1", root), format!("{}/d2", root));
    let mut l = Layout { files: vec![], dirs: vec![format!("{}/sub", d1), format!("{}/sub", d2)], q_good: vec![], q_other: vec![], s_good: vec![],
        s_other: vec![], s_v2: vec![], bad: vec![], missing: vec![], unsupported: vec![], q_many: vec![], s_many: vec![], q_bytes: vec![], s_bytes: vec![] };
    let mk = |dir: &str, name: &str, kind: &'static str, text: &str| Target { dir: dir.into(), name: name.into(), kind, text: Some(text.into()) };
    l.q_good.push(mk(&d1, "q.graphql", "query", &a.queries[0]));
    l.q_good.push(mk(&d1, "q2.graphql", "query", &a.queries[1]));
    l.q_other.push(mk(&d2, "q.graphql", "query", &b.queries[0]));
    l.s_good.push(mk(&d1, "schema.graphql", "schema", &a.sdl));
    l.s_good.push(mk(&d1, "schema.json", "schema", &a.json));
    l.s_good.push(mk(&d1, "schema.gql", "schema", &a.sdl));
    l.s_good.push(mk(&d1, "schema.graphqls", "schema", &a.sdl));
    l.s_other.push(mk(&d2, "schema.graphql", "schema", &b.sdl));
    l.s_v2.push(mk(&d1, "schema_v2.graphql", "schema", &a.sdl_v2));
    l.bad.push(mk(&d1, "bad.graphql", "bad", BAD_TEXTS[rng.below(3)]));
    l.bad.push(mk(&d1, "bad.json", "bad", if rng.chance(50) { BAD_TEXTS[3] } else { "{\"foo\": 1}" }));
    l.unsupported.push(mk(&d1, "schema.txt", "unsupported", &a.sdl));
    l.unsupported.push(mk(&d1, "schema", "unsupported", &a.sdl));
    l.unsupported.push(mk(&d1, ".graphql", "unsupported", &a.sdl));
    l.missing.push(Target { dir: d1.clone(), name: "missing.graphql".into(), kind: "missing", text: None });
    l.missing.push(Target { dir: format!("{}/nodir", root), name: "schema.graphql".into(), kind: "missing", text: None });
    l.missing.push(Target { dir: d2.clone(), name: "q2.graphql".into(), kind: "missing", text: None });
    let d3 = format!("{}/many", root);
    for i in 0..20usize {
        l.q_many.push(mk(&d3, &format!("q{:02}.graphql", i), "query", &format!("{}# file {}\n", a.queries[i % 2], i)));
        let stext = match i % 3 { 0 => &a.sdl, 1 => &a.sdl_v2, _ => &b.sdl };
        l.s_many.push(mk(&d3, &format!("s{:02}.graphql", i), "schema", stext));
    }
    l.q_bytes.push(mk(&d3, "q%FF.graphql", "query", &a.queries[0]));
    l.q_bytes.push(mk(&d3, "q%FE.graphql", "query", &a.queries[1]));
    l.s_bytes.push(mk(&d3, "s%FF.graphql", "schema", &a.sdl));
    l.s_bytes.push(mk(&d3, "s%FE.graphql", "schema", &a.sdl_v2));
    for t in l.q_good.iter().chain(&l.q_other).chain(&l.s_good).chain(&l.s_other).chain(&l.s_v2).chain(&l.bad).chain(&l.unsupported).chain(&l.q_many).chain(&l.s_many).chain(&l.q_bytes).chain(&l.s_bytes) {
        l.files.push((t.plain(), t.text.clone().unwrap()));
    }
    l
}

fn pick_opts(rng: &mut Rng) -> usize {
    match rng.below(100) {
        0..=59 => 0,
        60..=74 => 1,
        75..=82 => 2,
        83..=87 => 3,
        88..=92 => 4,
        93..=96 => 5,
        _ => 6,
    }
}

fn make_call(rng: &mut Rng, q: &Target, s: &Target, entry: Entry, opts: usize, spelled: bool) -> Call {
    let (sp, snote) = if spelled { random_spelling(rng, s) } else { spell(s, 0) };
    let sfile = if s.text.is_some() { s.plain() } else { String::new() };
    match entry {
        Entry::File => {
            let (qp, qnote) = if spelled { random_spelling(rng, q) } else { spell(q, 0) };
            let note = if q.kind == "query" && s.kind == "schema" {
                if qnote != "plain" { qnote.to_string() } else { snote.to_string() }
            } else {
                format!("q:{}/s:{}", q.kind, s.kind)
            };
            Call { entry, query: qp, schema: sp, opts, note, qfile: if q.text.is_some() { q.plain() } else { String::new() }, sfile }
        }
        Entry::Str => {
            let text = q.text.clone().unwrap_or_else(|| BAD_TEXTS[1].to_string());
            let note = if q.kind == "query" && s.kind == "schema" { snote.to_string() } else { format!("q:{}/s:{}", q.kind, s.kind) };
            Call { entry, query: text, schema: sp, opts, note, qfile: String::new(), sfile }
        }
    }
}

fn tags_of(calls: &[Call], threads_first: bool, uses_common: bool, absolute: bool) -> Vec<String> {
    let mut tags = vec![];
    let has = |p: &dyn Fn(&Call) -> bool| calls.iter().any(|c| p(c));
    if has(&|c| c.note.starts_with("alias")) {
        tags.push("has-alias-spelling".to_string());
    }
    if has(&|c| c.note.starts_with("trailing")) {
        tags.push("has-trailing-slash".into());
    }
    if has(&|c| c.note.contains("missing")) {
        tags.push("has-missing-file".into());
    }
    if has(&|c| c.note.contains("bad")) {
        tags.push("has-unparsable-file".into());
    }
    if has(&|c| c.note.contains("unsupported")) {
        tags.push("has-unsupported-extension".into());
    }
    if has(&|c| c.entry == Entry::Str) {
        tags.push("has-from-string-call".into());
    }
    if has(&|c| c.schema.ends_with(".json")) {
        tags.push("has-json-schema".into());
    }
    if has(&|c| c.schema.ends_with(".gql") || c.schema.ends_with(".graphqls")) {
        tags.push("has-gql-or-graphqls-schema".into());
    }
    if has(&|c| c.sfile.contains("/d2/") || c.qfile.contains("/d2/")) && has(&|c| c.sfile.contains("/d1/") || c.qfile.contains("/d1/")) {
        tags.push("has-equal-base-names-in-two-directories".into());
    }
    if uses_common {
        tags.push("uses-common-directory".into());
    }
    tags.push(if threads_first { "order:threads-then-sequential".into() } else { "order:sequential-then-threads".into() });
    tags.push(if absolute { "paths:absolute".into() } else { "paths:relative-to-cwd".into() });
    tags
}

pub fn random_history(rng: &mut Rng, idx: usize, common: &Common) -> Hist {
    let absolute = rng.chance(30);
    let root = if absolute { format!("{}/h{}", cwd(), idx) } else { format!("h{}", idx) };
    let l = layout(rng, &root);
    let n = rng.range(3, 12);
    let mut calls: Vec<Call> = Vec::new();
    let mut uses_common = false;
    while calls.len() < n {
        // repeat (or respell) an earlier call
        if !calls.is_empty() && rng.chance(22) {
            let c = rng.pick(&calls).clone();
            calls.push(c);
            continue;
        }
        let entry = if rng.chance(80) { Entry::File } else { Entry::Str };
        let opts = pick_opts(rng);
        let (q, s): (Target, Target) = match rng.below(100) {
            // the ordinary call, in all spellings and schema formats
            0..=37 => (rng.pick(&l.q_good).clone(), rng.pick(&l.s_good).clone()),
            // the same query file against a second version of its schema (valid too, other code)
            38..=44 => (rng.pick(&l.q_good).clone(), l.s_v2[0].clone()),
            // the other directory: same base names, other contents
            45..=54 => (l.q_other[0].clone(), l.s_other[0].clone()),
            // query of one schema against the other schema (generation error)
            55..=59 => (l.q_other[0].clone(), l.s_good[0].clone()),
            // shared files
            60..=71 => {
                uses_common = true;
                let q = rng.pick(&common.targets_q).clone();
                // mostly the matching schema
                let matching: Vec<&Target> = common.targets_s.iter().filter(|s| s.dir == q.dir).collect();
                let s = if rng.chance(85) && !matching.is_empty() { (*rng.pick(&matching)).clone() } else { rng.pick(&common.targets_s).clone() };
                (q, s)
            }
            // failing loads
            72..=77 => (rng.pick(&l.missing).clone(), rng.pick(&l.s_good).clone()),
            78..=83 => (rng.pick(&l.q_good).clone(), rng.pick(&l.missing).clone()),
            84..=87 => (rng.pick(&l.bad).clone(), rng.pick(&l.s_good).clone()),
            88..=91 => (rng.pick(&l.q_good).clone(), rng.pick(&l.bad).clone()),
            92..=95 => (rng.pick(&l.q_good).clone(), rng.pick(&l.unsupported).clone()),
            // a schema file named as the query, a query file named as the schema
            96..=97 => (l.s_good[0].clone(), l.s_good[0].clone()),
            _ => (l.q_good[0].clone(), l.q_good[0].clone()),
        };
        calls.push(make_call(rng, &q, &s, entry, opts, true));
    }
    let threads_first = rng.chance(50);
    let mut files = l.files.clone();
    files.extend(common.files.iter().cloned());
    let h = Hist { idx, root, files, dirs: l.dirs.clone(), tags: tags_of(&calls, threads_first, uses_common, absolute), calls, threads_first, warm_q: vec![], warm_s: vec![] };
    h.materialise();
    h
}

/// 16 threads on the same few cold files, failing calls in between
pub fn soak_history(rng: &mut Rng, idx: usize) -> Hist {
    let root = format!("k{}", idx);
    let l = layout(rng, &root);
    let s = rng.pick(&l.s_good).clone();
    let bad = rng.pick(&l.bad).clone();
    let mut calls = vec![
        make_call(rng, &l.q_good[0], &s, Entry::File, 0, false),
        make_call(rng, &l.q_good[1], &s, Entry::File, 0, false),
        make_call(rng, &l.q_good[0], &s, Entry::File, 1, true),
        make_call(rng, &l.missing[0], &s, Entry::File, 0, false),
        make_call(rng, &l.q_good[0], &bad, Entry::File, 0, false),
        make_call(rng, &l.q_good[0], &s, Entry::Str, 0, false),
        make_call(rng, &l.q_other[0], &l.s_other[0], Entry::File, 0, false),
    ];
    rng.shuffle(&mut calls);
    calls.truncate(rng.range(4, 7));
    let h = Hist { idx, root, files: l.files.clone(), dirs: l.dirs.clone(), tags: vec!["soak".into()], calls, threads_first: true, warm_q: vec![], warm_s: vec![] };
    h.materialise();
    h
}

/// fixed histories, one per regression class the check is built to see
pub fn witness_histories(idx: &mut usize) -> Vec<Hist> {
    let mut out = Vec::new();
    let mut rng = Rng::new(0xC08);
    let mut new = |name: &str, build: &dyn Fn(&mut Rng, &Layout) -> Vec<Call>, threads_first: bool| {
        let root = format!("w{}-{}", *idx, name);
        let l = layout(&mut rng, &root);
        let calls = build(&mut rng, &l);
        let mut tags = tags_of(&calls, threads_first, false, false);
        tags.push(format!("witness:{}", name));
        let h = Hist { idx: *idx, root, files: l.files.clone(), dirs: l.dirs.clone(), calls, tags, threads_first, warm_q: vec![], warm_s: vec![] };
        h.materialise();
        *idx += 1;
        out.push(h);
    };
    let f = |l: &Layout, q: &Target, s: &Target, e: Entry, o: usize, how_q: usize, how_s: usize| -> Call {
        let _ = l;
        let (qp, qn) = spell(q, how_q);
        let (sp, sn) = spell(s, how_s);
        let note = if q.kind == "query" && s.kind == "schema" { if qn != "plain" { qn.to_string() } else { sn.to_string() } } else { format!("q:{}/s:{}", q.kind, s.kind) };
        Call { entry: e, query: if e == Entry::File { qp } else { q.text.clone().unwrap_or_else(|| BAD_TEXTS[1].into()) }, schema: sp, opts: o, note,
            qfile: if q.text.is_some() && e == Entry::File { q.plain() } else { String::new() }, sfile: if s.text.is_some() { s.plain() } else { String::new() } }
    };
    for tf in [false, true] {
        // one query file, two versions of its schema, in both orders (a cache entry must not outlive its schema)
        new("one-query-two-schema-versions", &|_, l| {
            vec![
                f(l, &l.q_good[0], &l.s_good[0], Entry::File, 0, 0, 0),
                f(l, &l.q_good[0], &l.s_v2[0], Entry::File, 0, 0, 0),
                f(l, &l.q_good[1], &l.s_v2[0], Entry::File, 1, 0, 0),
                f(l, &l.q_good[1], &l.s_good[0], Entry::File, 1, 0, 0),
                f(l, &l.q_good[0], &l.s_good[0], Entry::File, 0, 0, 0),
                f(l, &l.q_good[0], &l.s_v2[0], Entry::Str, 0, 0, 0),
            ]
        }, tf);
        // the derive macro's option set (query_file set) on the same file several times
        new("derive-options-with-query-file-repeated", &|_, l| {
            vec![
                f(l, &l.q_good[0], &l.s_good[0], Entry::File, 6, 0, 0),
                f(l, &l.q_good[0], &l.s_good[0], Entry::File, 6, 0, 0),
                f(l, &l.q_good[1], &l.s_good[0], Entry::File, 6, 0, 0),
                f(l, &l.q_good[0], &l.s_good[0], Entry::File, 6, 1, 0),
                f(l, &l.q_good[0], &l.s_good[0], Entry::File, 0, 0, 0),
            ]
        }, tf);
        // a failed call between two good ones (the old code poisoned the mutex)
        new("failed-call-between-good-calls", &|_, l| {
            vec![
                f(l, &l.q_good[0], &l.s_good[0], Entry::File, 0, 0, 0),
                f(l, &l.missing[0], &l.s_good[0], Entry::File, 0, 0, 0),
                f(l, &l.q_good[0], &l.s_good[0], Entry::File, 0, 0, 0),
                f(l, &l.q_good[0], &l.missing[1], Entry::File, 0, 0, 0),
                f(l, &l.q_good[0], &l.s_good[0], Entry::File, 0, 0, 0),
                f(l, &l.q_good[1], &l.s_good[0], Entry::Str, 0, 0, 0),
                f(l, &l.q_good[0], &l.bad[0], Entry::File, 0, 0, 0),
                f(l, &l.q_good[0], &l.unsupported[0], Entry::File, 0, 0, 0),
                f(l, &l.q_good[1], &l.s_good[0], Entry::File, 1, 0, 0),
            ]
        }, tf);
        // paths the OS refuses although `Path` considers them equal to a loaded one
        new("trailing-slash-after-good-call", &|_, l| {
            vec![
                f(l, &l.q_good[0], &l.s_good[0], Entry::File, 0, 0, 0),
                f(l, &l.q_good[0], &l.s_good[0], Entry::File, 0, 6, 0),
                f(l, &l.q_good[0], &l.s_good[0], Entry::File, 0, 0, 6),
                f(l, &l.q_good[0], &l.s_good[0], Entry::File, 0, 7, 0),
                f(l, &l.q_good[0], &l.s_good[0], Entry::File, 0, 0, 7),
                f(l, &l.q_good[0], &l.s_good[0], Entry::Str, 0, 0, 6),
                f(l, &l.q_good[0], &l.s_good[0], Entry::File, 0, 0, 0),
            ]
        }, tf);
        new("trailing-slash-before-good-call", &|_, l| {
            vec![
                f(l, &l.q_good[0], &l.s_good[0], Entry::File, 0, 6, 0),
                f(l, &l.q_good[0], &l.s_good[0], Entry::File, 0, 0, 7),
                f(l, &l.q_good[0], &l.s_good[0], Entry::File, 0, 0, 0),
                f(l, &l.q_good[0], &l.s_good[0], Entry::File, 0, 6, 6),
            ]
        }, tf);
        // equal base names in two directories
        new("equal-base-names", &|_, l| {
            vec![
                f(l, &l.q_good[0], &l.s_good[0], Entry::File, 0, 0, 0),
                f(l, &l.q_other[0], &l.s_other[0], Entry::File, 0, 0, 0),
                f(l, &l.q_good[0], &l.s_good[0], Entry::File, 0, 0, 0),
                f(l, &l.q_other[0], &l.s_good[0], Entry::File, 0, 0, 0),
                f(l, &l.q_good[0], &l.s_other[0], Entry::File, 0, 0, 0),
                f(l, &l.q_other[0], &l.s_other[0], Entry::Str, 0, 0, 0),
            ]
        }, tf);
        // one schema in every format and extension
        new("schema-formats", &|_, l| {
            let mut v: Vec<Call> = l.s_good.iter().map(|s| f(l, &l.q_good[0], s, Entry::File, 0, 0, 0)).collect();
            v.extend(l.unsupported.iter().map(|s| f(l, &l.q_good[0], s, Entry::File, 0, 0, 0)));
            v.extend(l.s_good.iter().map(|s| f(l, &l.q_good[1], s, Entry::Str, 1, 0, 0)));
            v
        }, tf);
        // every spelling of the same two files
        new("all-spellings", &|_, l| {
            let mut v = Vec::new();
            for how in 0..6 {
                v.push(f(l, &l.q_good[0], &l.s_good[0], Entry::File, 0, how, 5 - how));
            }
            v.push(f(l, &l.q_good[0], &l.s_good[0], Entry::File, 0, 0, 0));
            v
        }, tf);
        // more distinct files than any bounded cache would hold, then the first ones again
        new("many-distinct-files-then-the-first-again", &|_, l| {
            let mut v: Vec<Call> = (0..20).map(|i| f(l, &l.q_many[i], &l.s_many[i], Entry::File, 0, 0, 0)).collect();
            v.extend((0..6).map(|i| f(l, &l.q_many[i], &l.s_many[i], Entry::File, 0, 0, 0)));
            v.extend((0..3).map(|i| f(l, &l.q_many[i], &l.s_many[i], Entry::Str, 0, 0, 0)));
            v
        }, tf);
        // file names that differ only in a byte that is not valid UTF-8
        new("file-names-differing-in-a-non-utf8-byte", &|_, l| {
            vec![
                f(l, &l.q_bytes[0], &l.s_bytes[0], Entry::File, 0, 0, 0),
                f(l, &l.q_bytes[1], &l.s_bytes[1], Entry::File, 0, 0, 0),
                f(l, &l.q_bytes[0], &l.s_bytes[1], Entry::File, 0, 0, 0),
                f(l, &l.q_bytes[1], &l.s_bytes[0], Entry::File, 0, 0, 0),
                f(l, &l.q_bytes[0], &l.s_bytes[0], Entry::File, 0, 0, 0),
            ]
        }, tf);
        // unparsable inputs through both entry points, then good ones on the same files
        new("unparsable-then-good", &|_, l| {
            vec![
                f(l, &l.bad[0], &l.s_good[0], Entry::File, 0, 0, 0),
                f(l, &l.bad[0], &l.s_good[0], Entry::Str, 0, 0, 0),
                f(l, &l.q_good[0], &l.bad[0], Entry::File, 0, 0, 0),
                f(l, &l.q_good[0], &l.bad[1], Entry::File, 0, 0, 0),
                f(l, &l.s_good[0], &l.s_good[0], Entry::File, 0, 0, 0),
                f(l, &l.q_good[0], &l.q_good[0], Entry::File, 0, 0, 0),
                f(l, &l.q_good[0], &l.s_good[0], Entry::File, 0, 0, 0),
                f(l, &l.q_good[0], &l.s_good[1], Entry::File, 3, 0, 0),
                f(l, &l.q_good[0], &l.s_good[1], Entry::File, 2, 0, 0),
            ]
        }, tf);
    }
    out
}

#[allow(dead_code)]
pub fn case_of(h: &Hist) -> Value {
    json!({"history": h.to_case()})
}
