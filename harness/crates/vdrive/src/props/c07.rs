//! C07 — SDL and introspection JSON of the same schema generate identical code.
//! Differential on the implementation: the same document against several renderings of one abstract
//! schema must give the identical token string (order-preserving renderings) or the identical IR up
//! to item / variant order (type order permuted).  Tie: the Lean front-ends (`fromSdl`, `fromJson`)
//! + codegen produce the same IR as the implementation for every rendering.
use serde_json::json;
use vcore::caserun::*;
use vcore::common::*;
use vcore::gen::op::*;
use vcore::gen::rng::Rng;
use vcore::gen::schema::*;
use vcore::report::*;
use vcore::sexp::Sexp;

fn renderings(s: &ASchema) -> Vec<(&'static str, bool, String)> {
    let d = RenderKnobs::default();
    let js = |k: &RenderKnobs| serde_json::to_string_pretty(&s.to_json(k)).unwrap();
    vec![
        ("sdl", false, s.to_sdl(&d)),
        ("sdl-explicit-schema-block", false, s.to_sdl(&RenderKnobs { explicit_schema_block: true, ..d.clone() })),
        ("sdl-extend-type", false, s.to_sdl(&RenderKnobs { use_extend: true, ..d.clone() })),
        ("sdl-with-builtin-scalars", false, s.to_sdl(&RenderKnobs { sdl_builtin_scalars: true, ..d.clone() })),
        ("sdl-extend-implements-split", false, s.to_sdl(&RenderKnobs { use_extend: true, extend_implements: true, ..d.clone() })),
        ("sdl-extensions-first", false, s.to_sdl(&RenderKnobs { use_extend: true, extend_implements: true, extensions_first: true, ..d.clone() })),
        ("sdl-input-defaults", false, s.to_sdl(&RenderKnobs { input_defaults: true, ..d.clone() })),
        ("json-input-defaults", true, js(&RenderKnobs { input_defaults: true, ..d.clone() })),
        ("json-bare", true, js(&d)),
        ("json-data-wrapped", true, js(&RenderKnobs { json_wrapped: true, ..d.clone() })),
        ("json-without-builtins", true, js(&RenderKnobs { json_builtins: false, ..d.clone() })),
        ("json-without-directives", true, js(&RenderKnobs { json_directives: false, ..d.clone() })),
        ("sdl-input-directive-extensions", false, s.to_sdl(&RenderKnobs { input_directive_extensions: true, ..d.clone() })),
        ("json-data-wrapped-with-response-members", true, js(&RenderKnobs { json_wrapped: true, json_response_members: true, ..d.clone() })),
    ]
}

/// items of all modules with tagged-enum variants sorted: the order-insensitive IR
fn canonical_items(mods: &[vcore::extract::ExtractedModule]) -> Vec<String> {
    let mut out = Vec::new();
    for m in mods {
        for it in &m.items {
            let mut it = it.clone();
            if it.head() == Some("tagged") {
                if let Sexp::List(xs) = &mut it {
                    if let Some(Sexp::List(vs)) = xs.get_mut(5) {
                        vs.sort();
                    }
                }
            }
            out.push(format!("{}::{}", m.mod_name, it.render()));
        }
    }
    out.sort();
    out
}

pub fn run(a: &Args) -> i32 {
    let mut rep = Report::new(
        "C07",
        a,
        "random abstract schemas (objects, interfaces, unions, enums, custom scalars, input objects incl. @oneOf and recursion, deprecations, extend-type fields, explicit or default root names) rendered 14 ways (8 SDL: plain, explicit schema block, extend type, extend type with `implements` and one block per field, extensions first, re-declared built-in scalars, input-field defaults, directive-only `extend input` blocks; 6 JSON: bare, data-wrapped, data-wrapped with `errors` / `extensions` members after `data`, without built-ins, without directives, input-field defaults; type names incl. ones with a single leading underscore) plus one type-order permutation, each with one random document and option set; a case = one (schema, rendering) pair whose output is compared with the plain SDL rendering's; non-trivial = the schema has at least one of: interface, union, @oneOf input, deprecation, extension fields, custom root names",
    );
    let mut rng = Rng::new(a.seed);
    let mut ctx = CaseCtx::new();
    let n = if rep.thorough() { 2500 } else { 120 };
    for _ in 0..n {
        let schema = random_schema(&mut rng, &SchemaKnobs::default());
        let doc = random_doc(&mut rng, &schema, &OpKnobs::default());
        let qtext = doc.render();
        let mut opts = Opts::harness();
        opts.other_variant = rng.chance(30);
        opts.skip_none = rng.chance(30);
        opts.deprecation = *rng.pick(&["warn", "allow", "deny"]);
        let features: Vec<&str> = schema
            .types
            .iter()
            .filter_map(|t| match t {
                AType::Interface { .. } => Some("interface"),
                AType::Union { .. } => Some("union"),
                AType::Input { one_of: true, .. } => Some("oneof"),
                AType::Object { ext_fields, .. } if !ext_fields.is_empty() => Some("extend"),
                AType::Object { fields, .. } if fields.iter().any(|f| f.dep.is_some()) => Some("deprecated"),
                _ => None,
            })
            .chain(if schema.query.as_deref() != Some("Query") { Some("custom-roots") } else { None })
            .collect();
        for f in &features {
            rep.count(&format!("feature:{}", f));
        }
        let rs = renderings(&schema);
        let mut reference: Option<(String, RealOutcome)> = None;
        for (name, is_json, text) in &rs {
            let res = ctx.run(text, *is_json, &qtext, &opts);
            let key = format!("{}|{}|{}", name, text, qtext);
            rep.case(if features.is_empty() { None } else { Some(&key) });
            rep.count(&format!("rendering:{}", name));
            rep.count(&format!("outcome:{}", res.real.kind()));
            if !res.diffs.is_empty() {
                rep.disagree(json!({"rendering": name, "diffs": res.diffs.iter().take(5).collect::<Vec<_>>(), "schema": text, "query": qtext, "options": opts.describe()}));
            } else {
                rep.traces_validated += 1;
            }
            match &reference {
                None => reference = Some((name.to_string(), res.real.clone())),
                Some((rname, r)) => {
                    let same = match (r, &res.real) {
                        (RealOutcome::Ok(a), RealOutcome::Ok(b)) => a == b,
                        (x, y) => x.kind() == y.kind(),
                    };
                    if !same {
                        rep.fail(
                            &format!("front-ends-differ:{}", name),
                            json!({"reference_rendering": rname, "rendering": name, "schema_reference": rs[0].2, "schema": text,
                                   "query": qtext, "options": opts.describe(),
                                   "reference_outcome": r.kind(), "outcome": res.real.kind()}),
                        );
                    }
                }
            }
            if rep.samples.len() < 3 && *name == "json-data-wrapped" && !features.is_empty() {
                rep.sample(json!({"rendering": name, "features": features, "query": qtext, "outcome": res.real.kind()}));
            }
        }
        // a root operation type the schema does NOT designate, next to an ordinary object that happens to
        // carry the default root name: every rendering must refuse an operation of that kind alike
        if rng.chance(50) {
            let kind: &'static str = *rng.pick(&["mutation", "subscription"]);
            let default_name = if kind == "mutation" { "Mutation" } else { "Subscription" };
            let mut s2 = schema.clone();
            if s2.get(default_name).is_none() {
                s2.types.push(AType::Object { name: default_name.into(), implements: vec![], fields: vec![AField { name: "plan".into(), ty: ATy::named("Int"), dep: None }], ext_fields: vec![] });
            }
            if matches!(s2.get(default_name), Some(AType::Object { .. })) {
                if kind == "mutation" { s2.mutation = None } else { s2.subscription = None }
                let mut d2 = doc.clone();
                d2.ops.retain(|o| o.kind != kind);
                d2.ops.push(AOp { kind, name: "ShadowedRootOp".into(), vars: vec![], sels: vec![ASel::Typename] });
                d2.prune_unreachable();
                let q2 = d2.render();
                let mut outcomes: Vec<(&str, &'static str)> = Vec::new();
                let rs2 = renderings(&s2);
                for (name, is_json, text) in &rs2 {
                    let res = ctx.run(text, *is_json, &q2, &opts);
                    rep.case(Some(&format!("shadowed-root|{}|{}|{}", name, text, q2)));
                    rep.count("rendering:undesignated-root-with-default-named-object");
                    rep.count(&format!("outcome:{}", res.real.kind()));
                    if !res.diffs.is_empty() {
                        rep.disagree(json!({"rendering": name, "what": "undesignated root", "diffs": res.diffs.iter().take(5).collect::<Vec<_>>(), "schema": text, "query": q2}));
                    } else {
                        rep.traces_validated += 1;
                    }
                    outcomes.push((name, res.real.kind()));
                }
                if let Some((n, k)) = outcomes.iter().find(|(_, k)| *k != outcomes[0].1) {
                    rep.fail(&format!("front-ends-differ:{}", n), json!({"what": format!("the schema designates no {} type but has an object named {}", kind, default_name),
                        "reference_rendering": outcomes[0].0, "reference_outcome": outcomes[0].1, "rendering": n, "outcome": k,
                        "schema_reference": rs2[0].2, "query": q2}));
                }
            }
        }
        // type order permuted: SDL in one order, JSON in another
        let mut permuted = schema.clone();
        rng.shuffle(&mut permuted.types);
        let ptext = serde_json::to_string(&permuted.to_json(&RenderKnobs::default())).unwrap();
        let res = ctx.run(&ptext, true, &qtext, &opts);
        rep.case(Some(&format!("permuted|{}|{}", ptext, qtext)));
        rep.count("rendering:json-type-order-permuted");
        if !res.diffs.is_empty() {
            rep.disagree(json!({"rendering": "json-type-order-permuted", "diffs": res.diffs.iter().take(5).collect::<Vec<_>>(), "schema": ptext, "query": qtext}));
        }
        if let Some((_, RealOutcome::Ok(ref_tokens))) = &reference {
            match (&res.real, vcore::extract::extract(ref_tokens)) {
                (RealOutcome::Ok(_), Ok(ref_mods)) => {
                    let a = canonical_items(&ref_mods);
                    let b = canonical_items(res.modules.as_deref().unwrap_or(&[]));
                    if a != b {
                        let only_a: Vec<&String> = a.iter().filter(|x| !b.contains(x)).take(3).collect();
                        let only_b: Vec<&String> = b.iter().filter(|x| !a.contains(x)).take(3).collect();
                        rep.fail("front-ends-differ:type-order", json!({"schema_reference": rs[0].2, "schema": ptext, "query": qtext,
                            "only_reference": only_a, "only_permuted": only_b}));
                    }
                }
                // the generator succeeded but the extractor cannot read a construct of the emitted code: a broken tie (the
                // IR-based oracles cannot run), not a refusal of the input
                (RealOutcome::Ok(_), Err(_)) => {
                    rep.disagree(json!({"what": "the emitted tokens could not be read into the IR", "file": "c07.rs"}));
                }
                (other, _) => rep.fail("front-ends-differ:type-order", json!({"schema_reference": rs[0].2, "schema": ptext, "query": qtext, "outcome": other.kind()})),
            }
        }
    }
    // ---- fixed witnesses of the open finding `sdl-extension-of-a-non-object-type-ignored`: the SDL front-end folds
    // `extend type` only; `extend input / enum / union / interface` are dropped silently, so the SDL that uses them and the
    // introspection JSON of the same schema generate different code (or one of them refuses the operation)
    for (kind, folded, sdl_ext, qtext) in extension_witnesses() {
        let opts = Opts::harness();
        let d = RenderKnobs::default();
        let reference = ctx.run(&folded.to_sdl(&d), false, &qtext, &opts);
        let json_text = serde_json::to_string_pretty(&folded.to_json(&d)).unwrap();
        for (name, is_json, text) in [("json-bare", true, json_text.clone()), ("sdl-with-extension", false, sdl_ext.clone())] {
            let res = ctx.run(&text, is_json, &qtext, &opts);
            rep.case(Some(&format!("ext|{}|{}", kind, name)));
            rep.count(&format!("rendering:{}-of-{}-extension-witness", name, kind));
            if !res.diffs.is_empty() {
                rep.disagree(json!({"rendering": name, "diffs": res.diffs.iter().take(5).collect::<Vec<_>>(), "schema": text, "query": qtext}));
            } else {
                rep.traces_validated += 1;
            }
            let same = match (&reference.real, &res.real) {
                (RealOutcome::Ok(a), RealOutcome::Ok(b)) => a == b,
                (x, y) => x.kind() == y.kind(),
            };
            if !same {
                let class = if is_json { "front-ends-differ:json-bare".to_string() } else { "sdl-extension-of-a-non-object-type-ignored".to_string() };
                rep.fail(&class, json!({"extension_of": kind, "rendering": name, "schema_reference": folded.to_sdl(&d), "schema": text, "query": qtext,
                    "reference_outcome": reference.real.kind(), "outcome": res.real.kind()}));
            }
        }
    }
    rep.extra.insert("model_requests".into(), json!(ctx.model.requests));
    rep.finish()
}

/// (kind of the extended type, the schema with the extension folded in, the SDL text that writes it as an extension, a document
/// that observes the difference)
fn extension_witnesses() -> Vec<(&'static str, ASchema, String, String)> {
    let f = |n: &str, t: ATy| AField { name: n.into(), ty: t, dep: None };
    let obj = |name: &str, implements: Vec<&str>, fields: Vec<AField>| AType::Object { name: name.into(), implements: implements.into_iter().map(String::from).collect(), fields, ext_fields: vec![] };
    let mk = |filter_extra: bool, blue: bool, node_extra: bool, b_member: bool| ASchema {
        types: vec![
            AType::Input { name: "Filter".into(), one_of: false, fields: if filter_extra { vec![("a".into(), ATy::named("Int")), ("extra".into(), ATy::named("Int"))] } else { vec![("a".into(), ATy::named("Int"))] } },
            AType::Enum { name: "Colour".into(), values: if blue { vec!["RED".into(), "BLUE".into()] } else { vec!["RED".into()] } },
            AType::Interface { name: "Node".into(), fields: if node_extra { vec![f("id", ATy::named("ID")), f("extra", ATy::named("Int"))] } else { vec![f("id", ATy::named("ID"))] } },
            obj("A", vec!["Node"], vec![f("id", ATy::named("ID")), f("extra", ATy::named("Int"))]),
            obj("B", vec![], vec![f("x", ATy::named("Int"))]),
            AType::Union { name: "U".into(), members: if b_member { vec!["A".into(), "B".into()] } else { vec!["A".into()] } },
            obj("Query", vec![], vec![f("colour", ATy::named("Colour")), f("n", ATy::named("Node")), f("u", ATy::named("U")), f("echo", ATy::named("Int"))]),
        ],
        query: Some("Query".into()),
        mutation: None,
        subscription: None,
    };
    let base = mk(false, false, false, false).to_sdl(&RenderKnobs::default());
    vec![
        ("input", mk(true, false, false, false), format!("{}extend input Filter {{\n  extra: Int\n}}\n", base), "query Q($f: Filter) {\n  echo\n}\n".to_string()),
        ("enum", mk(false, true, false, false), format!("{}extend enum Colour {{\n  BLUE\n}}\n", base), "query Q {\n  colour\n}\n".to_string()),
        ("interface", mk(false, false, true, false), format!("{}extend interface Node {{\n  extra: Int\n}}\n", base), "query Q {\n  n {\n    __typename\n    extra\n  }\n}\n".to_string()),
        ("union", mk(false, false, false, true), format!("{}extend union U = B\n", base), "query Q {\n  u {\n    __typename\n  }\n}\n".to_string()),
    ]
}
