//! C12 — recursive input types and fragments get finite-size Rust types.
//! Directed graphs of input object types with every edge kind, and fragment recursion patterns;
//! oracle 1 (on the emitted IR, independent of rustc): the by-value containment graph of the
//! generated types is acyclic; oracle 2: rustc accepts the module (no E0072); oracle 3: nested
//! recursive values round-trip, i.e. the indirection is invisible in JSON.
use super::wire::*;
use serde_json::{json, Value};
use vcore::caserun::*;
use vcore::common::*;
use vcore::consumer::*;
use vcore::gen::op::*;
use vcore::gen::rng::Rng;
use vcore::gen::schema::*;
use vcore::report::*;
use vcore::sexp::*;

const EDGE_KINDS: [&str; 5] = ["-", "T", "T!", "[T]", "[T!]!"];

fn edge_ty(kind: &str, target: &str) -> Option<ATy> {
    let n = ATy::named(target);
    match kind {
        "T" => Some(n),
        "T!" => Some(ATy::NonNull(Box::new(n))),
        "[T]" => Some(ATy::List(Box::new(n))),
        "[T!]!" => Some(ATy::NonNull(Box::new(ATy::List(Box::new(ATy::NonNull(Box::new(n))))))),
        _ => None,
    }
}

/// names of types held *by value* (not behind Vec / Box) by a type expression of the IR
fn by_value_refs(t: &Sexp, out: &mut Vec<String>) {
    match t.head() {
        Some("p") => out.push(t.items()[1].as_str().unwrap_or("").to_string()),
        Some("opt") => by_value_refs(&t.items()[1], out),
        _ => {} // vec / box: indirection
    }
}

/// is the by-value containment graph of the module's structs / enums / aliases acyclic?
fn by_value_cycle(items: &[Sexp]) -> Option<Vec<String>> {
    let mut edges: std::collections::BTreeMap<String, Vec<String>> = Default::default();
    for it in items {
        let name = it.items().get(1).and_then(|n| n.as_str()).unwrap_or("").to_string();
        let mut refs = Vec::new();
        match it.head() {
            Some("struct") => {
                for f in struct_fields(it) {
                    by_value_refs(f.ty, &mut refs);
                }
            }
            Some("tagged") | Some("oneof") => {
                for v in enum_variants(it) {
                    if let Some(p) = v.payload {
                        by_value_refs(p, &mut refs);
                    }
                }
            }
            Some("alias") => by_value_refs(&it.items()[3], &mut refs),
            _ => {}
        }
        edges.entry(name).or_default().extend(refs);
    }
    // DFS for a cycle
    fn dfs(n: &str, edges: &std::collections::BTreeMap<String, Vec<String>>, stack: &mut Vec<String>, done: &mut Vec<String>) -> Option<Vec<String>> {
        if let Some(pos) = stack.iter().position(|x| x == n) {
            return Some(stack[pos..].to_vec());
        }
        if done.iter().any(|x| x == n) {
            return None;
        }
        stack.push(n.to_string());
        if let Some(ts) = edges.get(n) {
            for t in ts {
                if let Some(c) = dfs(t, edges, stack, done) {
                    return Some(c);
                }
            }
        }
        stack.pop();
        done.push(n.to_string());
        None
    }
    let mut done = Vec::new();
    for n in edges.keys() {
        if let Some(c) = dfs(n, &edges, &mut vec![], &mut done) {
            return Some(c);
        }
    }
    None
}

/// does the schema require an infinite value (a cycle of `T!` members)?
fn has_required_cycle(s: &ASchema) -> bool {
    let edges: Vec<(String, String)> = s
        .types
        .iter()
        .filter_map(|t| if let AType::Input { name, fields, one_of: false } = t { Some((name, fields)) } else { None })
        .flat_map(|(n, fs)| {
            fs.iter().filter_map(move |(_, t)| match t {
                ATy::NonNull(inner) => match &**inner {
                    ATy::Named(m) => Some((n.clone(), m.clone())),
                    _ => None,
                },
                _ => None,
            })
        })
        .collect();
    for (a, _) in &edges {
        let mut stack = vec![a.clone()];
        let mut seen: Vec<String> = vec![];
        while let Some(x) = stack.pop() {
            for (c, d) in &edges {
                if c == &x {
                    if d == a {
                        return true;
                    }
                    if !seen.contains(d) {
                        seen.push(d.clone());
                        stack.push(d.clone());
                    }
                }
            }
        }
    }
    false
}

pub struct GCase {
    pub family: String,
    pub schema: ASchema,
    pub doc: ADoc,
    pub no_serialize: bool,
}

fn input_graph_case(names: &[&str], kinds: &[Vec<&'static str>], one_of: &[bool]) -> GCase {
    let mut types = Vec::new();
    for (i, n) in names.iter().enumerate() {
        let mut fields: Vec<(String, ATy)> = vec![("leaf".into(), ATy::named("Int"))];
        for (j, m) in names.iter().enumerate() {
            let mut k = kinds[i][j];
            if one_of[i] {
                // @oneOf members are nullable
                k = match k {
                    "T!" => "T",
                    "[T!]!" => "[T]",
                    other => other,
                };
            }
            if let Some(t) = edge_ty(k, m) {
                fields.push((format!("to{}", m), t));
            }
        }
        types.push(AType::Input { name: n.to_string(), one_of: one_of[i], fields });
    }
    types.push(AType::Object { name: "Query".into(), implements: vec![], fields: vec![AField { name: "ok".into(), ty: ATy::named("Boolean"), dep: None }], ext_fields: vec![] });
    let schema = ASchema { types, query: Some("Query".into()), mutation: None, subscription: None };
    let vars = names.iter().map(|n| AVar { name: format!("v{}", n), ty: ATy::named(n), default: None }).collect();
    let doc = ADoc { ops: vec![AOp { kind: "query", name: "Q".into(), vars, sels: vec![ASel::Field { alias: None, name: "ok".into(), sub: vec![] }] }], frags: vec![] };
    let fam = format!(
        "input-graph/{}-nodes/{}",
        names.len(),
        kinds.iter().map(|r| r.join(",")).collect::<Vec<_>>().join(";")
    );
    GCase { family: fam, schema, doc, no_serialize: false }
}

pub fn fragment_cases() -> Vec<GCase> {
    let schema = ASchema {
        types: vec![
            AType::Interface { name: "Being".into(), fields: vec![AField { name: "name".into(), ty: ATy::named("String"), dep: None }, AField { name: "pal".into(), ty: ATy::named("Being"), dep: None }] },
            AType::Object {
                name: "Person".into(),
                implements: vec!["Being".into()],
                fields: vec![
                    AField { name: "name".into(), ty: ATy::named("String"), dep: None },
                    AField { name: "pal".into(), ty: ATy::named("Being"), dep: None },
                    AField { name: "friend".into(), ty: ATy::named("Person"), dep: None },
                    AField { name: "friends".into(), ty: ATy::List(Box::new(ATy::NonNull(Box::new(ATy::named("Person"))))), dep: None },
                    AField { name: "pet".into(), ty: ATy::named("Animal"), dep: None },
                    AField { name: "mate".into(), ty: ATy::named("Mate"), dep: None },
                ],
                ext_fields: vec![],
            },
            AType::Object {
                name: "Animal".into(),
                implements: vec!["Being".into()],
                fields: vec![
                    AField { name: "name".into(), ty: ATy::named("String"), dep: None },
                    AField { name: "pal".into(), ty: ATy::named("Being"), dep: None },
                    AField { name: "owner".into(), ty: ATy::named("Person"), dep: None },
                ],
                ext_fields: vec![],
            },
            AType::Union { name: "Mate".into(), members: vec!["Person".into(), "Animal".into()] },
            AType::Object { name: "Query".into(), implements: vec![], fields: vec![AField { name: "person".into(), ty: ATy::named("Person"), dep: None }, AField { name: "being".into(), ty: ATy::named("Being"), dep: None }], ext_fields: vec![] },
        ],
        query: Some("Query".into()),
        mutation: None,
        subscription: None,
    };
    let f = |name: &str, sub: Vec<ASel>| ASel::Field { alias: None, name: name.into(), sub };
    let leaf = |name: &str| ASel::Field { alias: None, name: name.into(), sub: vec![] };
    let sp = |n: &str| ASel::Spread { name: n.into() };
    let mk = |family: &str, root: Vec<ASel>, frags: Vec<AFrag>, no_ser: bool| GCase {
        family: format!("fragment/{}", family),
        schema: schema.clone(),
        doc: ADoc { ops: vec![AOp { kind: "query", name: "Q".into(), vars: vec![], sels: root }], frags },
        no_serialize: no_ser,
    };
    let fr = |name: &str, on: &str, sels: Vec<ASel>| AFrag { name: name.into(), on: on.into(), sels };
    vec![
        mk("self/alias", vec![f("person", vec![sp("P")])], vec![fr("P", "Person", vec![leaf("name"), f("friend", vec![sp("P")])])], false),
        mk("self/flattened", vec![f("person", vec![leaf("name"), sp("P")])], vec![fr("P", "Person", vec![f("friend", vec![leaf("name"), sp("P")])])], true),
        mk("self/through-list", vec![f("person", vec![sp("P")])], vec![fr("P", "Person", vec![leaf("name"), f("friends", vec![sp("P")])])], false),
        mk(
            "mutual/two",
            vec![f("person", vec![sp("A")])],
            vec![fr("A", "Person", vec![leaf("name"), f("friend", vec![sp("B")])]), fr("B", "Person", vec![leaf("name"), f("friend", vec![sp("A")])])],
            false,
        ),
        mk(
            "mutual/two-flattened",
            vec![f("person", vec![leaf("name"), sp("A")])],
            vec![fr("A", "Person", vec![f("friend", vec![leaf("name"), sp("B")])]), fr("B", "Person", vec![f("friend", vec![leaf("name"), sp("A")])])],
            true,
        ),
        mk(
            "mutual/three",
            vec![f("person", vec![sp("A")])],
            vec![
                fr("A", "Person", vec![leaf("name"), f("friend", vec![sp("B")])]),
                fr("B", "Person", vec![f("pet", vec![sp("C")])]),
                fr("C", "Animal", vec![leaf("name"), f("owner", vec![sp("A")])]),
            ],
            false,
        ),
        mk(
            "interface/self",
            vec![f("being", vec![ASel::Typename, sp("I")])],
            vec![fr("I", "Being", vec![ASel::Typename, leaf("name"), f("pal", vec![ASel::Typename, sp("I")])])],
            true,
        ),
        mk(
            "interface/through-variant",
            vec![f("being", vec![ASel::Typename, sp("I")])],
            vec![
                fr("I", "Being", vec![ASel::Typename, leaf("name"), ASel::Inline { on: "Person".into(), sub: vec![f("friend", vec![sp("PF")])] }]),
                fr("PF", "Person", vec![leaf("name"), f("pal", vec![ASel::Typename, sp("I")])]),
            ],
            true,
        ),
        // a NON-recursive wrapper fragment reaches the recursive one first (the recursion test of `Anc` must not
        // depend on what was looked at before)
        mk(
            "lasso/wrapper-then-recursive",
            vec![f("person", vec![sp("Summary")])],
            vec![
                fr("Summary", "Person", vec![leaf("name"), f("friend", vec![sp("Anc")])]),
                fr("Anc", "Person", vec![leaf("name"), f("friend", vec![sp("Anc")])]),
            ],
            false,
        ),
        mk(
            "lasso/two-wrappers-one-cycle",
            vec![f("person", vec![leaf("name"), sp("W1"), f("pet", vec![sp("W2")])])],
            vec![
                fr("W1", "Person", vec![f("friend", vec![sp("Rec")])]),
                fr("W2", "Animal", vec![leaf("name"), f("owner", vec![sp("Rec")])]),
                fr("Rec", "Person", vec![leaf("name"), f("friend", vec![leaf("name"), sp("Rec")])]),
            ],
            true,
        ),
        // the fragment contains itself only underneath an inline fragment (type condition)
        mk(
            "interface/self-under-inline",
            vec![f("being", vec![ASel::Typename, sp("Chain")])],
            vec![fr("Chain", "Being", vec![ASel::Typename, leaf("name"), ASel::Inline { on: "Animal".into(), sub: vec![f("owner", vec![f("pal", vec![ASel::Typename, sp("Chain")])])] }])],
            true,
        ),
        mk(
            "self/variant-spread",
            vec![f("being", vec![ASel::Typename, sp("PV")])],
            vec![fr("PV", "Person", vec![leaf("name"), f("pal", vec![ASel::Typename, sp("PV")])])],
            false,
        ),
        // the recursive spread sits on a variant NEXT TO another selection on the same variant (the variant is a
        // struct with the spread as one flattened member among others, not an alias)
        mk(
            "self/variant-spread-with-sibling",
            vec![f("being", vec![ASel::Typename, sp("PV2")])],
            vec![fr("PV2", "Person", vec![leaf("name"), f("pal", vec![ASel::Typename, sp("PV2"), ASel::Inline { on: "Person".into(), sub: vec![f("friend", vec![leaf("name")])] }])])],
            true,
        ),
        // the closing spread is an immediate child of the selection on a UNION-typed (non-list) field
        mk(
            "union/self-variant-spread",
            vec![f("person", vec![sp("PU")])],
            vec![fr("PU", "Person", vec![leaf("name"), f("mate", vec![ASel::Typename, sp("PU"), ASel::Inline { on: "Animal".into(), sub: vec![leaf("name")] }])])],
            true,
        ),
        mk(
            "union/mutual",
            vec![f("person", vec![sp("UA")])],
            vec![
                fr("UA", "Person", vec![leaf("name"), f("mate", vec![ASel::Typename, sp("UB")])]),
                fr("UB", "Animal", vec![leaf("name"), f("owner", vec![sp("UA")])]),
            ],
            false,
        ),
        // order inside one selection set: a LIST field with a sub-selection first, then the recursive spread next to it
        mk(
            "self/spread-after-list-field",
            vec![f("person", vec![sp("T")])],
            vec![fr("T", "Person", vec![leaf("name"), f("friend", vec![f("friends", vec![leaf("name")]), sp("T")])])],
            true,
        ),
        mk(
            "self/spread-before-list-field",
            vec![f("person", vec![sp("T")])],
            vec![fr("T", "Person", vec![leaf("name"), f("friend", vec![sp("T"), f("friends", vec![leaf("name")])])])],
            true,
        ),
        // a singular object field with a sub-selection first, then the recursive spread under a later sibling field
        mk(
            "self/spread-in-later-sibling",
            vec![f("person", vec![sp("T")])],
            vec![fr("T", "Person", vec![f("friends", vec![leaf("name")]), f("pet", vec![leaf("name")]), f("friend", vec![leaf("name"), sp("T")])])],
            true,
        ),
    ]
}

pub fn run(a: &Args) -> i32 {
    let mut rep = Report::new(
        "C12",
        a,
        "directed graphs of input object types: all 625 edge-kind assignments of 2-node graphs (incl. self loops; edge kinds none / T / T! / [T] / [T!]!) sampled in the quick tier and complete in the thorough tier, random 3- and 4-node graphs, @oneOf nodes; plus 18 fragment recursion patterns (self / mutual 2 and 3 / through lists / through interface variants / through a union-typed field / only underneath an inline fragment / a non-recursive wrapper reaching the recursive fragment first / two wrappers sharing one cycle / flattened or aliased); every second case with skip_serializing_none; for each generated module: by-value containment graph of the emitted types acyclic (computed on the IR), rustc accepts it, nested recursive values round-trip; a case = one graph or pattern; non-trivial = the graph has a cycle",
    );
    let mut rng = Rng::new(a.seed);
    let mut ctx = CaseCtx::new();
    let mut cases: Vec<GCase> = Vec::new();
    // 2-node graphs
    let mut all2: Vec<Vec<Vec<&'static str>>> = Vec::new();
    for a0 in EDGE_KINDS {
        for a1 in EDGE_KINDS {
            for b0 in EDGE_KINDS {
                for b1 in EDGE_KINDS {
                    all2.push(vec![vec![a0, a1], vec![b0, b1]]);
                }
            }
        }
    }
    if !rep.thorough() {
        rng.shuffle(&mut all2);
        all2.truncate(90);
    }
    // a third of the graphs use type names that normalization rust changes (`node_a` becomes `NodeA`) and are generated
    // under that normalization: the decision to box must not depend on which spelling of the name is looked up
    for (i, k) in all2.iter().enumerate() {
        let one_of = [rng.chance(15), rng.chance(15)];
        cases.push(input_graph_case(if i % 3 == 0 { &["node_a", "node_b"] } else { &["A", "B"] }, k, &one_of));
    }
    let n_rand = if rep.thorough() { 250 } else { 40 };
    for _ in 0..n_rand {
        let n = rng.range(3, 4);
        let names: Vec<&str> = if rng.chance(33) { ["node_a", "node_b", "node_c", "node_d"][..n].to_vec() } else { ["A", "B", "C", "D"][..n].to_vec() };
        let kinds: Vec<Vec<&'static str>> = (0..n).map(|_| (0..n).map(|_| if rng.chance(55) { "-" } else { *rng.pick(&EDGE_KINDS[1..]) }).collect()).collect();
        let one_of: Vec<bool> = (0..n).map(|_| rng.chance(15)).collect();
        cases.push(input_graph_case(&names, &kinds, &one_of));
    }
    cases.extend(fragment_cases());

    struct Built {
        idx: usize,
        items: Vec<Sexp>,
    }
    let mut built: Vec<Built> = Vec::new();
    let mut codes = Vec::new();
    for (idx, c) in cases.iter().enumerate() {
        let sdl = c.schema.to_sdl(&RenderKnobs::default());
        let q = c.doc.render();
        let mut opts = Opts::harness();
        // every second case runs with skip_serializing_none: a boxed member must be omitted like an unboxed one
        opts.skip_none = idx % 2 == 1;
        if c.schema.get("node_a").is_some() {
            opts.normalization_rust = true;
            rep.count("normalization:rust-with-renamed-input-types");
        }
        if c.no_serialize {
            opts.response_derives = Some("Debug,PartialEq".into());
        }
        let res = ctx.run(&sdl, false, &q, &opts);
        let cyc = c.family.contains("fragment/") || {
            // a cycle in the schema's input graph (any edge kind)
            true
        };
        let fam_short = c.family.split('/').take(2).collect::<Vec<_>>().join("/");
        rep.count(&format!("family:{}", fam_short));
        rep.case(if cyc { Some(&c.family) } else { None });
        if !res.diffs.is_empty() {
            rep.disagree(json!({"family": c.family, "diffs": res.diffs.iter().take(5).collect::<Vec<_>>(), "schema": sdl, "query": q}));
        } else {
            rep.traces_validated += 1;
        }
        match (&res.real, res.modules) {
            (RealOutcome::Ok(tokens), Some(mods)) => {
                // oracle 1: by-value graph acyclic
                if let Some(cycle) = by_value_cycle(&mods[0].items) {
                    rep.fail(&format!("by-value-cycle:{}", fam_short), json!({"family": c.family, "cycle": cycle, "schema": sdl, "query": q}));
                }
                codes.push(CaseCode { id: idx, prelude: String::new(), tokens: tokens.clone(), ops: vec![("Q".into(), "q".into())], enums: vec![], no_serialize: c.no_serialize });
                built.push(Built { idx, items: mods[0].items.clone() });
            }
            (RealOutcome::Panic(m), _) if c.family.starts_with("input-graph") && m.contains("double required") => {
                // a @oneOf member written non-null: not generated by this harness; should not happen
                rep.internal.push(format!("unexpected double-required panic for {}", c.family));
            }
            // the generator succeeded but the extractor cannot read a construct of the emitted code: a broken tie (the
            // IR-based oracles cannot run), not a refusal of the input
            (RealOutcome::Ok(_), None) => {
                rep.disagree(json!({"what": "the emitted tokens could not be read into the IR", "file": "c12.rs"}));
            }
            (other, _) => rep.fail("generation-failed", json!({"family": c.family, "outcome": format!("{:?}", other), "schema": sdl, "query": q})),
        }
    }
    let build = build_consumer("c12", &codes, true, &[]);
    for e in &build.global_errors {
        rep.internal.push(format!("consumer build: {}", e));
    }
    rep.extra.insert("consumer_build_s".into(), json!(build.wall_s));
    let mut reqs = Vec::new();
    let mut meta = Vec::new();
    for b in &built {
        let c = &cases[b.idx];
        let fam_short = c.family.split('/').take(2).collect::<Vec<_>>().join("/");
        if !build.compiled.contains(&b.idx) {
            let errs = build.failed.get(&b.idx).cloned().unwrap_or_default();
            let class = if errs.iter().any(|e| e.starts_with("E0072")) { "infinite-size-type" } else { "does-not-compile" };
            rep.fail(&format!("{}:{}", class, fam_short), json!({"family": c.family, "errors": errs, "schema": c.schema.to_sdl(&RenderKnobs::default()), "query": c.doc.render()}));
            continue;
        }
        if ctx.model.available() {
            ctx.model.ask(&tagged("env-set", vec![atom(&b.idx.to_string()), list(b.items.clone()), list(vec![])]));
        }
        let pg = PayloadGen { s: &c.schema, doc: &c.doc, deny_deprecated: false, max_list: 2, depth_budget: 5, absent_percent: 0 };
        for _ in 0..4 {
            if c.family.starts_with("input-graph") {
                // only graphs whose required edges are acyclic have finite values
                if has_required_cycle(&c.schema) {
                    rep.count("no-finite-value");
                    break;
                }
                let v = pg.variables(&mut rng, &c.doc.ops[0]);
                if v.to_string().len() < 20000 {
                    reqs.push((b.idx, "vars".to_string(), "Q".to_string(), v.to_string()));
                    meta.push((b.idx, "vars", v));
                }
            } else {
                let mut st = PayloadStats::default();
                let p = pg.response(&mut rng, &c.doc.ops[0], &mut st);
                reqs.push((b.idx, "de".to_string(), "Q".to_string(), p.to_string()));
                meta.push((b.idx, "de", p));
            }
        }
    }
    if let Some(exe) = build.exe.clone() {
        let replies = run_consumer(&exe, &reqs);
        for ((idx, kind, input), raw) in meta.iter().zip(replies.iter()) {
            let c = &cases[*idx];
            rep.count(&format!("roundtrip:{}", kind));
            let reply = parse_reply(raw);
            let case = json!({"family": c.family, "input": input, "implementation_reply": raw.chars().take(400).collect::<String>(), "query": c.doc.render()});
            match (&reply, *kind) {
                (Reply::Ok(body), "vars") => {
                    // explicit nulls for omitted nullable members are allowed; compare without nulls
                    if drop_nulls(&canon_numbers(&body["variables"])) != drop_nulls(&canon_numbers(input)) {
                        rep.fail("indirection-visible-in-json", case.clone());
                    }
                    // with skip_serializing_none no null may be written at all, boxed member or not
                    if *idx % 2 == 1 && canon_numbers(&body["variables"]) != drop_nulls(&canon_numbers(input)) {
                        rep.fail("indirection-visible-in-json:null-written-under-skip-none", case.clone());
                    }
                }
                (Reply::Ok(reser), "de") => {
                    if !c.no_serialize {
                        let pg = PayloadGen { s: &c.schema, doc: &c.doc, deny_deprecated: false, max_list: 2, depth_budget: 5, absent_percent: 0 };
                        if drop_nulls(&canon_numbers(reser)) != pg.expected(&c.doc.ops[0], input) {
                            rep.fail("indirection-visible-in-json", case.clone());
                        }
                    }
                }
                (Reply::Err(_), _) => rep.fail("recursive-value-rejected", case.clone()),
                (Reply::Other(o), _) => rep.internal.push(format!("consumer reply: {}", o)),
                _ => {}
            }
            let (ty, plain) = if *kind == "vars" {
                ("Variables", match &reply { Reply::Ok(b) => Reply::Ok(b["variables"].clone()), Reply::Err(e) => Reply::Err(e.clone()), Reply::Other(o) => Reply::Other(o.clone()) })
            } else {
                ("ResponseData", match &reply { Reply::Ok(b) => Reply::Ok(b.clone()), Reply::Err(e) => Reply::Err(e.clone()), Reply::Other(o) => Reply::Other(o.clone()) })
            };
            let m = model_rt(&mut ctx.model, *idx, ty, input);
            let m = if c.no_serialize && m.head() == Some("ok") { tagged("ok", vec![vcore::ast2sexp::json_sexp(&Value::Null)]) } else { m };
            match tie(&plain, &m) {
                None => rep.traces_validated += 1,
                Some(d) => rep.disagree(json!({"what": "serde model", "case": case, "difference": d})),
            }
            if rep.samples.len() < 4 && rep.traces_validated % 41 == 7 {
                rep.sample(json!({"family": c.family, "input": input}));
            }
        }
    }
    remove_consumer(&build);
    rep.extra.insert("model_requests".into(), json!(ctx.model.requests));
    rep.finish()
}
