//! C09 — Rust-side options never change the JSON wire format.
//! Metamorphic: the same (schema, document) generated under the baseline options and under a random
//! combination of the wire-neutral options; both compiled; the same vectors (conforming payloads,
//! corrupted payloads, variable assignments) must get identical replies.
use super::wire::*;
use serde_json::{json, Value};
use vcore::caserun::*;
use vcore::common::*;
use vcore::consumer::*;
use vcore::gen::op::*;
use vcore::gen::rng::Rng;
use vcore::gen::schema::*;
use vcore::report::*;
use vcore::sexp::*;

fn rust_collision(s: &ASchema) -> bool {
    s.types.iter().any(|t| matches!(t, AType::Enum { values, .. } if values.iter().any(|v| v == "self") && values.iter().any(|v| v == "Self")))
}

/// name of the fixed operation with input-object variables (generated with `skip_serializing_none` off)
const INPUTS_OP: &str = "InputsWithNullableMembers";

/// (schema, document, enums the variant MUST declare extern - `None`: a random subset)
fn fixed_pairs() -> Vec<(ASchema, ADoc, Option<Vec<&'static str>>)> {
    let f = |n: &str, t: ATy| AField { name: n.into(), ty: t, dep: None };
    let obj = |name: &str, fields: Vec<AField>| AType::Object { name: name.into(), implements: vec![], fields, ext_fields: vec![] };
    let fld = |n: &str, sub: Vec<ASel>| ASel::Field { alias: None, name: n.into(), sub };
    let nn = |t: ATy| ATy::NonNull(Box::new(t));
    let schema = ASchema {
        types: vec![
            obj("User", vec![f("id", ATy::named("ID")), f("key", nn(ATy::named("ID"))), f("name", nn(ATy::named("String"))), f("age", ATy::named("Int")), f("friends", ATy::List(Box::new(nn(ATy::named("User")))))]),
            obj("Query", vec![f("user", ATy::named("User")), f("me", nn(ATy::named("User")))]),
        ],
        query: Some("Query".into()),
        mutation: None,
        subscription: None,
    };
    let doc = ADoc {
        ops: vec![AOp {
            kind: "query",
            name: "Users".into(),
            vars: vec![],
            sels: vec![
                fld("user", vec![fld("id", vec![]), fld("name", vec![]), fld("age", vec![]), fld("friends", vec![fld("key", vec![]), fld("name", vec![])])]),
                fld("me", vec![fld("key", vec![]), fld("name", vec![])]),
            ],
        }],
        frags: vec![],
    };
    // three enums, all used (as fields and as variables); the variant declares a proper SUBSET extern: the first declared, the
    // middle one, the first and the last - the others must still be generated
    let enum_schema = ASchema {
        types: vec![
            AType::Enum { name: "Alpha".into(), values: vec!["A1".into(), "A2".into()] },
            AType::Enum { name: "Beta".into(), values: vec!["B1".into(), "B2".into()] },
            AType::Enum { name: "Gamma".into(), values: vec!["G1".into(), "G2".into()] },
            obj("Query", vec![f("alpha", ATy::named("Alpha")), f("beta", nn(ATy::named("Beta"))), f("gammas", ATy::List(Box::new(nn(ATy::named("Gamma")))))]),
        ],
        query: Some("Query".into()),
        mutation: None,
        subscription: None,
    };
    let enum_doc = ADoc {
        ops: vec![AOp {
            kind: "query",
            name: "Enums".into(),
            vars: vec![AVar { name: "a".into(), ty: ATy::named("Alpha"), default: None }, AVar { name: "g".into(), ty: ATy::named("Gamma"), default: None }],
            sels: vec![fld("alpha", vec![]), fld("beta", vec![]), fld("gammas", vec![])],
        }],
        frags: vec![],
    };
    // struct-only operation whose variables are input objects with nullable members (incl. a recursive one and a list): the
    // variant derives `Default` on the variables as well; `None` members must still be sent as `null` (seeded change C09-I)
    let input_schema = ASchema {
        types: vec![
            AType::Input {
                name: "Filter".into(),
                one_of: false,
                fields: vec![
                    ("name".into(), ATy::named("String")),
                    ("min".into(), ATy::named("Int")),
                    ("key".into(), nn(ATy::named("ID"))),
                    ("tags".into(), ATy::List(Box::new(nn(ATy::named("String"))))),
                    ("sub".into(), ATy::named("Filter")),
                ],
            },
            obj("Query", vec![f("count", ATy::named("Int"))]),
        ],
        query: Some("Query".into()),
        mutation: None,
        subscription: None,
    };
    let input_doc = ADoc {
        ops: vec![AOp {
            kind: "query",
            name: INPUTS_OP.into(),
            vars: vec![
                AVar { name: "filter".into(), ty: ATy::named("Filter"), default: None },
                AVar { name: "filters".into(), ty: ATy::List(Box::new(nn(ATy::named("Filter")))), default: None },
                AVar { name: "n".into(), ty: ATy::named("Int"), default: None },
            ],
            sels: vec![fld("count", vec![])],
        }],
        frags: vec![],
    };
    vec![
        (schema, doc, None),
        (input_schema, input_doc, None),
        (enum_schema.clone(), enum_doc.clone(), Some(vec!["Alpha"])),
        (enum_schema.clone(), enum_doc.clone(), Some(vec!["Beta"])),
        (enum_schema, enum_doc, Some(vec!["Alpha", "Gamma"])),
    ]
}

pub fn run(a: &Args) -> i32 {
    let mut rep = Report::new(
        "C09",
        a,
        "random (schema, document) pairs, each generated twice: baseline options and a random combination of the wire-neutral options (normalization rust, extra response / variables derives, module visibility {private, pub, pub(crate)}, custom scalars module, serde path, a subset of enums declared extern and supplied by the consumer); both modules compiled in one consumer crate; vectors = conforming payloads, single-point corruptions and variable assignments; a case = one vector run through both modules; non-trivial = the variant differs from the baseline in at least two options; distinct by (pair, vector)",
    );
    let mut rng = Rng::new(a.seed);
    let mut ctx = CaseCtx::new();
    let n = if rep.thorough() { 200 } else { 30 };
    struct Pair {
        schema: ASchema,
        doc: ADoc,
        sdl: String,
        qtext: String,
        base: Opts,
        var: Opts,
        changed: usize,
        base_id: usize,
        var_id: usize,
        ops: Vec<(String, String)>, // baseline (struct, module)
        var_ops: Vec<(String, String)>,
        var_items: Vec<Vec<Sexp>>,
        no_serialize: bool,
    }
    let mut pairs: Vec<Pair> = Vec::new();
    let mut codes: Vec<CaseCode> = Vec::new();
    let mut attempts = 0;
    // fixed pairs first: struct-only operations (where `Default` can be derived) with nullable and non-null IDs
    let mut fixed = fixed_pairs().into_iter();
    while pairs.len() < n && attempts < 3 * n {
        attempts += 1;
        let fixed_case = fixed.next();
        let is_fixed = fixed_case.is_some();
        let (schema, doc, forced_externs) = match fixed_case {
            Some(x) => x,
            None => {
                let schema = random_schema(&mut rng, &SchemaKnobs::default());
                let doc = random_doc(&mut rng, &schema, &OpKnobs::default());
                (schema, doc, None)
            }
        };
        let sdl = schema.to_sdl(&RenderKnobs::default());
        let qtext = doc.render();
        let no_serialize = doc.has_recursive_fragment();
        let mut base = Opts::harness();
        base.other_variant = rng.chance(40);
        let inputs_pair = is_fixed && doc.ops.first().map_or(false, |o| o.name == INPUTS_OP);
        base.skip_none = forced_externs.is_some() || (!inputs_pair && rng.chance(40));
        if no_serialize {
            base.response_derives = Some("Debug,PartialEq".into());
        }
        let mut var = base.clone();
        let mut changed = 0;
        if !rust_collision(&schema) && rng.chance(50) {
            var.normalization_rust = true;
            changed += 1;
            rep.count("option:normalization-rust");
        }
        if rng.chance(60) {
            var.response_derives = Some(if no_serialize { "Debug,PartialEq,Clone".into() } else { "Serialize,Debug,PartialEq,Clone".into() });
            var.variables_derives = Some("Deserialize , Debug,PartialEq, Clone".into());
            changed += 1;
            rep.count("option:extra-derives");
        }
        if rng.chance(60) {
            var.visibility = rng.pick(&["", "pub(crate)", "pub(super)"]).to_string();
            changed += 1;
            rep.count("option:visibility");
        }
        let scalars = custom_scalars(&schema);
        if !scalars.is_empty() && rng.chance(50) {
            var.scalars_module = Some("super::scalars".into());
            changed += 1;
            rep.count("option:custom-scalars-module");
        }
        if rng.chance(50) {
            var.serde_path = "graphql_client::_private::serde".into();
            changed += 1;
            rep.count("option:serde-path");
        }
        // baseline first (its enum sources may be needed for the extern enums of the variant)
        let rb = ctx.run(&sdl, false, &qtext, &base);
        let (btokens, bmods) = match (&rb.real, rb.modules) {
            (RealOutcome::Ok(t), Some(m)) => (t.clone(), m),
            _ => continue,
        };
        // `Default` can be derived when every generated type is a struct (the generated enums do not implement it):
        // one more derive that must not change what is accepted
        let structs_only = bmods.iter().all(|m| m.items.iter().all(|i| !matches!(i.head(), Some("gqlenum") | Some("tagged") | Some("oneof") | Some("oneOf"))));
        if structs_only && !no_serialize && (is_fixed || rng.chance(70)) {
            let cur = var.response_derives.clone().unwrap_or_default();
            var.response_derives = Some(if cur.is_empty() { "Default".to_string() } else { format!("{},Default", cur) });
            // ... and on the variables / input objects (custom scalars are `String` aliases here, so every member type has a default)
            let curv = var.variables_derives.clone().unwrap_or_default();
            var.variables_derives = Some(if curv.is_empty() { "Default".to_string() } else { format!("{},Default", curv) });
            changed += 1;
            rep.count("option:derive-default");
        }
        let mut prelude_extra = String::new();
        // (the consumer-supplied enum is a copy of the baseline's: it carries the baseline's derives)
        if forced_externs.is_some() {
            var.normalization_rust = false;
            var.response_derives = base.response_derives.clone();
            var.variables_derives = base.variables_derives.clone();
        }
        if !var.normalization_rust && var.response_derives == base.response_derives && (forced_externs.is_some() || rng.chance(60)) {
            let sources = vcore::extract::enum_sources(&btokens);
            let mut names: Vec<String> = sources.iter().map(|s| s.1.clone()).collect();
            names.sort();
            names.dedup();
            let chosen: Vec<String> = match &forced_externs {
                Some(f) => names.into_iter().filter(|n| f.contains(&n.as_str())).collect(),
                None => names.into_iter().filter(|_| rng.chance(60)).collect(),
            };
            if !chosen.is_empty() {
                for name in &chosen {
                    if let Some(src) = sources.iter().find(|s| &s.1 == name) {
                        prelude_extra.push_str(&format!("    {}\n", src.2.replace('\n', "\n    ")));
                    }
                }
                var.extern_enums = chosen;
                changed += 1;
                rep.count("option:extern-enums");
            }
        }
        // the variant delivered the way the derive delivers it (forced pairs, a quarter of the single-operation pairs): the
        // options are the text of a `#[graphql(...)]` attribute read by the derive's own option builder - a list-valued key
        // (`extern_enums(..)`) next to a bare flag (`skip_serializing_none`) must leave both in force
        if doc.ops.len() == 1 && var.scalars_module.is_none() && (forced_externs.is_some() || rng.chance(25)) {
            if super::wire::deliver_by_derive(&mut var, &doc.ops[0].name, &qtext, &ctx, pairs.len(), &mut rng) {
                rep.count("delivery:derive-attribute");
            }
        }
        let rv = ctx.run(&sdl, false, &qtext, &var);
        if !rv.diffs.is_empty() {
            rep.disagree(json!({"what": "IR (variant options)", "diffs": rv.diffs.iter().take(5).collect::<Vec<_>>(), "schema": sdl, "query": qtext, "options": var.describe()}));
        }
        let (vtokens, vmods) = match (&rv.real, rv.modules) {
            (RealOutcome::Ok(t), Some(m)) => (t.clone(), m),
            // the generator succeeded but the extractor cannot read a construct of the emitted code: a broken tie (the
            // IR-based oracles cannot run), not a refusal of the input
            (RealOutcome::Ok(_), None) => {
                rep.disagree(json!({"what": "the emitted tokens could not be read into the IR", "file": "c09.rs"}));
                continue;
            }
            (other, _) => {
                rep.fail("option-breaks-generation", json!({"schema": sdl, "query": qtext, "options": var.describe(), "outcome": format!("{:?}", other)}));
                continue;
            }
        };
        let ops_of = |mods: &Vec<vcore::extract::ExtractedModule>| -> Vec<(String, String)> {
            mods.iter().map(|m| (m.sexp.items()[8].as_str().unwrap_or("").to_string(), m.mod_name.clone())).collect()
        };
        let base_id = codes.len();
        codes.push(CaseCode { id: base_id, prelude: prelude_for(&schema, &base), tokens: btokens, ops: ops_of(&bmods), enums: vec![], no_serialize });
        let var_id = codes.len();
        let mut vprelude = if var.scalars_module.is_some() {
            let mut p = String::from("    pub mod scalars {\n");
            for sc in &scalars {
                let ident = if var.normalization_rust { heck::ToUpperCamelCase::to_upper_camel_case(sc.as_str()) } else { sc.clone() };
                p.push_str(&format!("        pub type {} = String;\n", ident));
            }
            p.push_str("    }\n");
            p
        } else {
            prelude_for(&schema, &var)
        };
        vprelude.push_str(&prelude_extra);
        codes.push(CaseCode { id: var_id, prelude: vprelude, tokens: vtokens, ops: ops_of(&vmods), enums: vec![], no_serialize });
        pairs.push(Pair {
            schema, doc, sdl, qtext, base, var, changed, base_id, var_id,
            ops: ops_of(&bmods), var_ops: ops_of(&vmods), var_items: vmods.iter().map(|m| m.items.clone()).collect(), no_serialize,
        });
    }
    let build = build_consumer("c09", &codes, true, &[]);
    for e in &build.global_errors {
        rep.internal.push(format!("consumer build: {}", e));
    }
    rep.extra.insert("consumer_build_s".into(), json!(build.wall_s));
    let exe = match build.exe.clone() {
        Some(e) => e,
        None => {
            rep.internal.push("no consumer executable".into());
            return rep.finish();
        }
    };
    let mut reqs: Vec<(usize, String, String, String)> = Vec::new();
    let mut meta: Vec<(usize, usize, &'static str, Value)> = Vec::new(); // (pair, op index, kind, input)
    for (pi, p) in pairs.iter().enumerate() {
        let b_ok = build.compiled.contains(&p.base_id);
        let v_ok = build.compiled.contains(&p.var_id);
        if b_ok && !v_ok {
            // the baseline compiles, the variant does not: a build-level effect of a wire-neutral option
            // (reported under C02 as well); here it means the wire behaviour cannot even be observed
            rep.fail(
                "option-breaks-the-build",
                json!({"schema": p.sdl, "query": p.qtext, "options": p.var.describe(), "errors": build.failed.get(&p.var_id)}),
            );
            continue;
        }
        if !b_ok {
            rep.count("baseline-does-not-compile");
            continue;
        }
        if ctx.model.available() {
            for (mi, items) in p.var_items.iter().enumerate() {
                let mut items = items.clone();
                // extern enums are supplied by the consumer with the baseline's definition
                let _ = &mut items;
                ctx.model.ask(&tagged("env-set", vec![atom(&env_id(pi, mi).to_string()), list(items), externs_for(&p.schema, &p.var)]));
            }
        }
        let pg = PayloadGen { s: &p.schema, doc: &p.doc, deny_deprecated: p.base.deprecation == "deny", max_list: 3, depth_budget: 4, absent_percent: 20 };
        for (oi, op) in p.doc.ops.iter().enumerate() {
            if oi >= p.ops.len() || oi >= p.var_ops.len() {
                break;
            }
            for _ in 0..(if rep.thorough() { 12 } else { 6 }) {
                let mut st = PayloadStats::default();
                let payload = pg.response(&mut rng, op, &mut st);
                let mut inputs = vec![payload.clone()];
                let mut cs = pg.corruptions(op, &payload, p.base.other_variant);
                rng.shuffle(&mut cs);
                inputs.extend(cs.into_iter().take(4).map(|c| c.payload));
                for inp in inputs {
                    reqs.push((p.base_id, "de".into(), p.ops[oi].0.clone(), inp.to_string()));
                    reqs.push((p.var_id, "de".into(), p.var_ops[oi].0.clone(), inp.to_string()));
                    meta.push((pi, oi, "de", inp));
                }
                let vars = if op.vars.is_empty() { Value::Null } else { pg.variables(&mut rng, op) };
                reqs.push((p.base_id, "vars".into(), p.ops[oi].0.clone(), vars.to_string()));
                reqs.push((p.var_id, "vars".into(), p.var_ops[oi].0.clone(), vars.to_string()));
                meta.push((pi, oi, "vars", vars));
            }
        }
    }
    let replies = run_consumer(&exe, &reqs);
    for (k, (pi, oi, kind, input)) in meta.iter().enumerate() {
        let p = &pairs[*pi];
        let (rb, rv) = (&replies[2 * k], &replies[2 * k + 1]);
        let key = format!("{}|{}|{}|{}", pi, oi, kind, input);
        rep.case(if p.changed >= 2 { Some(&key) } else { None });
        rep.count(&format!("vector:{}", kind));
        let norm = |r: &str| -> Value {
            match parse_reply(r) {
                // for `vars` the whole request body is compared: variables, query text and operationName
                Reply::Ok(v) => json!({"ok": canon_numbers(&v)}),
                Reply::Err(_) => json!("err"),
                Reply::Other(o) => json!({"other": o}),
            }
        };
        let (nb, nv) = (norm(rb), norm(rv));
        if nb != nv {
            rep.fail(
                "wire-format-depends-on-option",
                json!({"schema": p.sdl, "query": p.qtext, "baseline_options": p.base.describe(), "variant_options": p.var.describe(), "vector_kind": kind,
                       "input": input, "baseline_reply": rb, "variant_reply": rv}),
            );
        }
        // model tie on the variant module
        let ty = if *kind == "vars" { "Variables" } else { "ResponseData" };
        let plain = match parse_reply(rv) {
            Reply::Ok(v) => Reply::Ok(if *kind == "vars" { v["variables"].clone() } else { v }),
            other => other,
        };
        if p.var.extern_enums.is_empty() {
            let m = model_rt(&mut ctx.model, env_id(*pi, *oi), ty, input);
            let m = if p.no_serialize && *kind == "de" && m.head() == Some("ok") { tagged("ok", vec![vcore::ast2sexp::json_sexp(&Value::Null)]) } else { m };
            match tie(&plain, &m) {
                None => rep.traces_validated += 1,
                Some(d) => rep.disagree(json!({"what": "serde model (variant options)", "difference": d, "query": p.qtext, "options": p.var.describe(), "input": input})),
            }
        }
        if rep.samples.len() < 4 && p.changed >= 3 && rep.evaluations % 131 == 7 {
            rep.sample(json!({"variant_options": p.var.describe(), "vector_kind": kind, "input": input, "reply": rv.chars().take(160).collect::<String>()}));
        }
    }
    remove_consumer(&build);
    rep.extra.insert("pairs".into(), json!(pairs.len()));
    rep.extra.insert("model_requests".into(), json!(ctx.model.requests));
    rep.finish()
}
