//! C14 — deprecation strategies allow / warn / deny do exactly what is documented.
//! Every field selection of a random single-operation document gets a unique alias, so that the
//! field emitted for it can be found in the IR by its wire name; the oracle is the documented
//! 2 x 3 table (deprecated? x strategy).  Both schema front-ends.  `deny` payloads are checked in a
//! compiled consumer (they must still deserialize).
use super::wire::*;
use serde_json::{json, Value};
use vcore::caserun::*;
use vcore::common::*;
use vcore::consumer::*;
use vcore::gen::op::*;
use vcore::gen::rng::Rng;
use vcore::gen::schema::*;
use vcore::report::*;

struct Aliased {
    key: String,
    dep: Option<Option<String>>,
    route: &'static str,
}

/// give every field selection a unique alias; record (alias, deprecation of the schema field, route)
fn alias_all(s: &ASchema, sels: &mut Vec<ASel>, parent: &str, route: &'static str, counter: &mut usize, out: &mut Vec<Aliased>) {
    let fields = s.fields_of(parent);
    for sel in sels.iter_mut() {
        match sel {
            ASel::Field { alias, name, sub } => {
                if let Some(f) = fields.iter().find(|f| &f.name == name) {
                    *counter += 1;
                    let key = format!("k{}", counter);
                    *alias = Some(key.clone());
                    out.push(Aliased { key, dep: f.dep.clone(), route });
                    let base = f.ty.base().to_string();
                    if !sub.is_empty() {
                        alias_all(s, sub, &base, route, counter, out);
                    }
                }
            }
            ASel::Inline { on, sub } => {
                let on = on.clone();
                alias_all(s, sub, &on, "variant", counter, out)
            }
            _ => {}
        }
    }
}

pub fn run(a: &Args) -> i32 {
    let mut rep = Report::new(
        "C14",
        a,
        "random schemas with deprecated fields (with / without reason incl. quotes, newlines, non-ASCII; on objects and interfaces) x single-operation documents whose field selections all carry unique aliases (direct selections, inside named fragments, inside inline-fragment variants) x {allow, warn, deny} x {SDL, introspection JSON}; a case = one (field selection, strategy, format) whose emitted field and attributes were read from the token stream; non-trivial = the schema field is deprecated; deny modules are compiled and fed payloads that contain the omitted fields",
    );
    let mut rng = Rng::new(a.seed);
    let mut ctx = CaseCtx::new();
    let n = if rep.thorough() { 600 } else { 60 };
    let mut codes: Vec<CaseCode> = Vec::new();
    let mut deny_cases: Vec<(usize, ASchema, ADoc, String, String)> = Vec::new();
    for _ in 0..n {
        let schema = random_schema(&mut rng, &SchemaKnobs::default());
        let mut doc = random_doc(&mut rng, &schema, &OpKnobs { aliases: false, recursive_fragments: false, ..OpKnobs::default() });
        doc.ops.truncate(1);
        doc.prune_unreachable();
        let mut counter = 0;
        let mut aliased: Vec<Aliased> = Vec::new();
        let root = match doc.ops[0].kind {
            "query" => schema.query.clone(),
            "mutation" => schema.mutation.clone(),
            _ => schema.subscription.clone(),
        }
        .unwrap_or_default();
        let mut sels = std::mem::take(&mut doc.ops[0].sels);
        alias_all(&schema, &mut sels, &root, "direct", &mut counter, &mut aliased);
        doc.ops[0].sels = sels;
        for fi in 0..doc.frags.len() {
            let on = doc.frags[fi].on.clone();
            let mut fs = std::mem::take(&mut doc.frags[fi].sels);
            alias_all(&schema, &mut fs, &on, "fragment", &mut counter, &mut aliased);
            doc.frags[fi].sels = fs;
        }
        // keep only fragments the (single) operation still reaches
        let qtext = doc.render();
        for (fmt, is_json) in [("sdl", false), ("json", true)] {
            let stext = if is_json { serde_json::to_string(&schema.to_json(&RenderKnobs::default())).unwrap() } else { schema.to_sdl(&RenderKnobs::default()) };
            for strategy in ["allow", "warn", "deny"] {
                let mut opts = Opts::harness();
                opts.deprecation = strategy;
                // a quarter of the cases in the derive delivery form: the strategy is what the user wrote in the attribute,
                // next to other keys and flags in random positions
                if rng.chance(25) {
                    opts.skip_none = rng.chance(60);
                    opts.other_variant = rng.chance(30);
                    if super::wire::deliver_by_derive(&mut opts, &doc.ops[0].name, &qtext, &ctx, 0, &mut rng) {
                        rep.count("delivery:derive-attribute");
                    }
                }
                let res = ctx.run(&stext, is_json, &qtext, &opts);
                if !res.diffs.is_empty() {
                    rep.disagree(json!({"strategy": strategy, "format": fmt, "diffs": res.diffs.iter().take(5).collect::<Vec<_>>(), "schema": stext, "query": qtext}));
                } else {
                    rep.traces_validated += 1;
                }
                let modules = match (&res.real, &res.modules) {
                    (RealOutcome::Ok(_), Some(m)) => m,
                    (other, _) => {
                        rep.count(&format!("generation:{}", other.kind()));
                        continue;
                    }
                };
                // every emitted field with its attributes, by wire name
                let mut by_wire: std::collections::BTreeMap<String, Vec<String>> = Default::default();
                for m in modules {
                    for it in m.items.iter().filter(|i| i.head() == Some("struct")) {
                        if it.items()[1].as_str() == Some("Variables") {
                            continue;
                        }
                        for f in struct_fields(it) {
                            by_wire.entry(f.wire().to_string()).or_default().push(f.deprecated.render());
                        }
                    }
                }
                // only fragments reachable from the operation are emitted
                let reachable_keys: Vec<&Aliased> = aliased.iter().collect();
                for al in reachable_keys {
                    let found = by_wire.get(&al.key).cloned().unwrap_or_default();
                    let expected: Vec<String> = match (&al.dep, strategy) {
                        (None, _) => vec!["nodep".into()],
                        (Some(_), "allow") => vec!["nodep".into()],
                        (Some(None), "warn") => vec!["(dep)".into()],
                        (Some(Some(r)), "warn") => vec![vcore::sexp::tagged("dep", vec![vcore::sexp::st(r)]).render()],
                        (Some(_), _) => vec![],
                    };
                    let key = format!("{}|{}|{}|{}|{}", stext.len(), qtext, al.key, strategy, fmt);
                    rep.case(if al.dep.is_some() { Some(&key) } else { None });
                    rep.count(&format!("route:{}", al.route));
                    rep.count(&format!("status:{}", match &al.dep { None => "current", Some(None) => "deprecated-no-reason", Some(Some(_)) => "deprecated-with-reason" }));
                    if found != expected {
                        let class = match (&al.dep, strategy) {
                            (None, _) => "current-field-marked-or-omitted",
                            (Some(_), "allow") => "allow-marks-or-omits",
                            (Some(_), "warn") => "warn-attribute-wrong",
                            _ => "deny-keeps-field",
                        };
                        rep.fail(class, json!({"strategy": strategy, "format": fmt, "alias": al.key, "route": al.route, "schema_deprecation": al.dep,
                            "expected_attributes": expected, "found": found, "schema": stext, "query": qtext}));
                    }
                    if rep.samples.len() < 4 && al.dep.is_some() && strategy == "warn" {
                        rep.sample(json!({"alias": al.key, "route": al.route, "strategy": strategy, "format": fmt, "schema_deprecation": al.dep, "found": found}));
                    }
                }
                if strategy == "deny" && !is_json && aliased.iter().any(|a| a.dep.is_some()) && deny_cases.len() < 25 {
                    if let RealOutcome::Ok(tokens) = &res.real {
                        let id = deny_cases.len();
                        let no_serialize = doc.has_recursive_fragment();
                        codes.push(CaseCode { id, prelude: prelude_for(&schema, &opts), tokens: tokens.clone(),
                            ops: modules.iter().map(|m| (m.sexp.items()[8].as_str().unwrap_or("").to_string(), m.mod_name.clone())).collect(), enums: vec![], no_serialize });
                        deny_cases.push((id, schema.clone(), doc.clone(), stext.clone(), qtext.clone()));
                    }
                }
            }
        }
    }
    // deny: payloads that contain the omitted fields still deserialize
    if !codes.is_empty() {
        let build = build_consumer("c14", &codes, true, &[]);
        if let Some(exe) = build.exe.clone() {
            let mut reqs = Vec::new();
            let mut meta = Vec::new();
            for (id, schema, doc, stext, qtext) in &deny_cases {
                if !build.compiled.contains(id) {
                    rep.fail("deny-module-does-not-compile", json!({"errors": build.failed.get(id), "schema": stext, "query": qtext}));
                    continue;
                }
                let pg = PayloadGen { s: schema, doc, deny_deprecated: true, max_list: 2, depth_budget: 4, absent_percent: 0 };
                for _ in 0..6 {
                    let mut st = PayloadStats::default();
                    let p = pg.response(&mut rng, &doc.ops[0], &mut st);
                    reqs.push((*id, "de".to_string(), codes[*id].ops[0].0.clone(), p.to_string()));
                    meta.push((stext.clone(), qtext.clone(), p));
                }
            }
            let replies = run_consumer(&exe, &reqs);
            for ((stext, qtext, p), raw) in meta.iter().zip(replies.iter()) {
                rep.case(Some(&format!("deny-payload|{}|{}", qtext, p)));
                rep.count("deny-payload");
                if !raw.starts_with("ok ") {
                    rep.fail("deny-rejects-payload-with-deprecated-field", json!({"schema": stext, "query": qtext, "payload": p, "implementation_reply": raw}));
                }
            }
        } else {
            rep.internal.push(format!("deny consumer did not build: {:?}", build.global_errors));
        }
        remove_consumer(&build);
    }
    let _: Option<Value> = None;
    rep.extra.insert("model_requests".into(), json!(ctx.model.requests));
    rep.finish()
}
