//! C11 — Rust keywords and naming conventions never reach the wire or break the build.
//! Exhaustive: every strict / reserved keyword (editions 2015–2021, list written from the Rust
//! Reference) and every case style x every name position (response field, alias, variable, input
//! field, @oneOf member, enum value) x normalization {none, rust}; compiled; wire keys observed.
use super::wire::*;
use serde_json::{json, Value};
use vcore::caserun::*;
use vcore::common::*;
use vcore::consumer::*;
use vcore::report::*;
use vcore::sexp::*;

/// Rust Reference, "Keywords": strict (all editions), strict since 2018, reserved (incl. `try`).
pub const REFERENCE_KEYWORDS: [&str; 51] = [
    "as", "break", "const", "continue", "crate", "else", "enum", "extern", "false", "fn", "for", "if", "impl", "in", "let",
    "loop", "match", "mod", "move", "mut", "pub", "ref", "return", "self", "Self", "static", "struct", "super", "trait",
    "true", "type", "unsafe", "use", "where", "while", "async", "await", "dyn", "abstract", "become", "box", "do", "final",
    "macro", "override", "priv", "typeof", "unsized", "virtual", "yield", "try",
];

const STYLES: [(&str, &str); 8] = [
    ("camelCase", "fooBar"), ("snake_case", "foo_bar"), ("PascalCase", "FooBar"), ("SCREAMING", "FOO_BAR"),
    ("leading-underscore", "_leading"), ("digits", "x2y3"), ("double-underscore-inside", "a__b"), ("trailing-underscore", "type_"),
];

fn schema_for(n: &str, enum_ok: bool) -> String {
    let e = if enum_ok { format!("enum E {{ {} ZZZ }}\n", n) } else { "enum E { ZZZ }\n".to_string() };
    format!(
        "{}input In {{ {n}: Int plain: Int }}\ninput One @oneOf {{ {n}: Int other: String }}\ntype Inner {{ plain: Int }}\ntype Inner2 {{ {n}: Int }}\ntype Query {{ {n}: Int plain: Int inner: Inner inner2: Inner2 e: E f(i: In, o: One): Int }}\n",
        e,
        n = n
    )
}

/// the name in another case style (same snake_case form, different spelling): as an ALIAS of the field itself it is
/// still the response key
fn case_variant(n: &str) -> Option<String> {
    use heck::{ToSnakeCase, ToUpperCamelCase};
    let cands = [n.to_upper_camel_case(), n.to_snake_case(), n.to_snake_case().to_uppercase()];
    cands.into_iter().find(|v| v != n && !v.is_empty() && v.to_snake_case() == n.to_snake_case() && graphql_parser::parse_query::<String>(&format!("{{ {}: x }}", v)).is_ok())
}

fn query_for(n: &str) -> String {
    let variant = case_variant(n).map(|v| format!(" variant: inner2 {{ {}: {} }}", v, n)).unwrap_or_default();
    // default values name the keyword too: as a member of an input-object literal, as the member of a `@oneOf` literal (its
    // variant identifier is the UpperCamelCase form - `Self` for `self`) and as an enum value
    let enum_default = if matches!(n, "true" | "false" | "null") { String::new() } else { format!(" = {}", n) };
    format!("query Q(${n}: Int = 7, $i: In = {{ {n}: 1 }}, $o: One = {{ {n}: 2 }}, $e: E{ed}) {{ {n} aliased: inner {{ {n}: plain }}{variant} e }}\n", n = n, variant = variant, ed = enum_default)
}

pub fn run(a: &Args) -> i32 {
    let mut rep = Report::new(
        "C11",
        a,
        "every strict and reserved Rust keyword of editions 2015-2021 (51 words, reference list written from the Rust Reference, independent of the code's table) and 8 case-style samples x positions {response field, alias, alias that is the field's own name in another case style, variable, input-object field, @oneOf member, enum value} x normalization {none, rust}; each (name, normalization) is one generated module compiled in a consumer crate; wire keys observed by deserializing a payload keyed by the exact GraphQL names and serializing variables; a case = one (name, position, normalization); exhaustive; non-trivial = the name is a keyword",
    );
    let mut ctx = CaseCtx::new();
    let mut names: Vec<(String, String)> = REFERENCE_KEYWORDS.iter().map(|k| ("keyword".to_string(), k.to_string())).collect();
    names.extend(STYLES.iter().map(|(s, n)| (s.to_string(), n.to_string())));
    struct M {
        id: usize,
        kind: String,
        name: String,
        rust_norm: bool,
        enum_ok: bool,
        sdl: String,
        query: String,
        module_items: Vec<Sexp>,
    }
    let mut ms: Vec<M> = Vec::new();
    let mut codes = Vec::new();
    for (kind, n) in &names {
        let enum_ok = !matches!(n.as_str(), "true" | "false" | "null");
        let sdl = schema_for(n, enum_ok);
        let query = query_for(n);
        for rust_norm in [false, true] {
            let mut opts = Opts::harness();
            opts.normalization_rust = rust_norm;
            let res = ctx.run(&sdl, false, &query, &opts);
            if !res.diffs.is_empty() {
                rep.disagree(json!({"what": "IR", "name": n, "normalization_rust": rust_norm, "diffs": res.diffs.iter().take(5).collect::<Vec<_>>()}));
            } else {
                rep.traces_validated += 1;
            }
            match (&res.real, res.modules) {
                (RealOutcome::Ok(tokens), Some(mods)) => {
                    let id = ms.len();
                    codes.push(CaseCode { id, prelude: String::new(), tokens: tokens.clone(), ops: vec![("Q".into(), "q".into())],
                        enums: vec![("q".into(), "E".into())], no_serialize: false });
                    ms.push(M { id, kind: kind.clone(), name: n.clone(), rust_norm, enum_ok, sdl: sdl.clone(), query: query.clone(), module_items: mods[0].items.clone() });
                }
                // the generator succeeded but the extractor cannot read a construct of the emitted code: a broken tie (the
                // IR-based oracles cannot run), not a refusal of the input
                (RealOutcome::Ok(_), None) => {
                    rep.disagree(json!({"what": "the emitted tokens could not be read into the IR", "file": "c11.rs"}));
                }
                (other, _) => {
                    // the schema / query parser may refuse a name (e.g. `true` as an enum value): not the generator's doing
                    let parses = graphql_parser::parse_schema::<String>(&sdl).is_ok() && graphql_parser::parse_query::<String>(&query).is_ok();
                    if parses {
                        rep.fail("name-breaks-generation", json!({"name": n, "normalization_rust": rust_norm, "outcome": format!("{:?}", other), "schema": sdl, "query": query}));
                    } else {
                        rep.count("not-a-legal-graphql-name-here");
                    }
                }
            }
        }
    }
    let build = build_consumer("c11", &codes, true, &[]);
    for e in &build.global_errors {
        rep.internal.push(format!("consumer build: {}", e));
    }
    let mut reqs: Vec<(usize, String, String, String)> = Vec::new();
    let mut meta: Vec<(usize, &'static str, Value)> = Vec::new();
    for m in &ms {
        let positions: &[&str] = &["response-field", "alias", "variable", "input-field", "oneof-member", "enum-value"];
        if !build.compiled.contains(&m.id) {
            for p in positions {
                rep.case(Some(&format!("{}|{}|{}", m.name, p, m.rust_norm)));
            }
            rep.fail(
                "name-breaks-the-build",
                json!({"name": m.name, "kind": m.kind, "normalization_rust": m.rust_norm, "errors": build.failed.get(&m.id), "schema": m.sdl, "query": m.query}),
            );
            continue;
        }
        if ctx.model.available() {
            ctx.model.ask(&tagged("env-set", vec![atom(&m.id.to_string()), list(m.module_items.clone()), list(vec![])]));
        }
        let ev = if m.enum_ok { json!(m.name) } else { json!("ZZZ") };
        let mut payload = json!({ m.name.clone(): 1, "aliased": { m.name.clone(): 2 }, "e": ev });
        if let Some(v) = case_variant(&m.name) {
            payload["variant"] = json!({ v: 7 });
        }
        reqs.push((m.id, "de".into(), "Q".into(), payload.to_string()));
        meta.push((m.id, "response", payload));
        let vars = json!({ m.name.clone(): 5, "i": { m.name.clone(): 3, "plain": null }, "o": { m.name.clone(): 4 }, "e": ev });
        reqs.push((m.id, "vars".into(), "Q".into(), vars.to_string()));
        meta.push((m.id, "variables", vars));
        if m.enum_ok {
            reqs.push((m.id, "enum".into(), "q::E".into(), json!(m.name).to_string()));
            meta.push((m.id, "enum", json!(m.name)));
        }
    }
    if let Some(exe) = build.exe.clone() {
        let replies = run_consumer(&exe, &reqs);
        for ((id, what, input), raw) in meta.iter().zip(replies.iter()) {
            let m = &ms[*id];
            let reply = parse_reply(raw);
            let case = json!({"name": m.name, "kind": m.kind, "normalization_rust": m.rust_norm, "what": what, "input": input, "implementation_reply": raw, "schema": m.sdl, "query": m.query});
            let nontrivial = m.kind == "keyword";
            match *what {
                "response" => {
                    for p in ["response-field", "alias"] {
                        let k = format!("{}|{}|{}", m.name, p, m.rust_norm);
                        rep.case(if nontrivial { Some(&k) } else { None });
                        rep.count(&format!("position:{}", p));
                    }
                    match &reply {
                        Reply::Ok(v) if v == input => {}
                        _ => rep.fail("wire-key-is-not-the-graphql-name:response", case.clone()),
                    }
                    let mr = model_rt(&mut ctx.model, *id, "ResponseData", input);
                    match tie(&reply, &mr) {
                        None => rep.traces_validated += 1,
                        Some(d) => rep.disagree(json!({"what": "serde model", "case": case, "difference": d})),
                    }
                }
                "variables" => {
                    for p in ["variable", "input-field", "oneof-member"] {
                        let k = format!("{}|{}|{}", m.name, p, m.rust_norm);
                        rep.case(if nontrivial { Some(&k) } else { None });
                        rep.count(&format!("position:{}", p));
                    }
                    match &reply {
                        Reply::Ok(v) if &v["variables"] == input => {}
                        _ => rep.fail("wire-key-is-not-the-graphql-name:variables", case.clone()),
                    }
                    let vars_reply = match &reply {
                        Reply::Ok(b) => Reply::Ok(b["variables"].clone()),
                        Reply::Err(e) => Reply::Err(e.clone()),
                        Reply::Other(o) => Reply::Other(o.clone()),
                    };
                    let mr = model_rt(&mut ctx.model, *id, "Variables", input);
                    match tie(&vars_reply, &mr) {
                        None => rep.traces_validated += 1,
                        Some(d) => rep.disagree(json!({"what": "serde model", "case": case, "difference": d})),
                    }
                }
                _ => {
                    let k = format!("{}|enum-value|{}", m.name, m.rust_norm);
                    rep.case(if nontrivial { Some(&k) } else { None });
                    rep.count("position:enum-value");
                    match &reply {
                        Reply::Ok(pair) if &pair[0] == input && !pair[1].as_str().unwrap_or("").starts_with("Other(") => {}
                        _ => rep.fail("wire-key-is-not-the-graphql-name:enum", case.clone()),
                    }
                }
            }
            if rep.samples.len() < 5 && nontrivial && rep.evaluations % 67 == 1 {
                rep.sample(json!({"name": m.name, "what": what, "normalization_rust": m.rust_norm, "reply": raw.chars().take(200).collect::<String>()}));
            }
        }
    }
    // the code's table versus the reference list, via the implementation: every reference keyword used
    // as a field name must come out escaped (an identifier that is not the keyword itself)
    for m in &ms {
        if m.kind != "keyword" || m.rust_norm {
            continue;
        }
        let rd = find_item(&m.module_items, "struct", "ResponseData");
        let found = rd.map(|it| struct_fields(it).iter().any(|f| f.wire() == m.name && f.rust != m.name)).unwrap_or(false);
        // snake_case(`Self`) = `self`, which is also a keyword, so the emitted identifier differs either way
        if !found {
            rep.fail("keyword-not-escaped", json!({"keyword": m.name, "response_data": rd.map(|x| x.render())}));
        }
    }
    remove_consumer(&build);
    rep.extra.insert("exhaustive".into(), json!(true));
    rep.extra.insert("names".into(), json!(names.len()));
    rep.extra.insert("model_requests".into(), json!(ctx.model.requests));
    rep.finish()
}
