//! C17 — code generation terminates cleanly on every input, cyclic ones included.
//! One isolated worker process per input from an adversarial grammar; observable = exit code /
//! signal / timeout.  Oracle: no signal, no timeout (a result, an error or a Rust panic with a
//! message).  Tie: the Lean model (whose walks are total functions) predicts ok / err / panic.
use serde_json::json;
use std::io::Read;
use std::process::{Command, Stdio};
use std::time::{Duration, Instant};
use vcore::common::*;
use vcore::gen::rng::Rng;
use vcore::model::Model;
use vcore::report::*;

/// hidden sub-command: run the generator on one input and report how it ended
pub fn worker(args: &[String]) -> ! {
    let schema_path = std::path::PathBuf::from(&args[0]);
    let query = std::fs::read_to_string(&args[1]).unwrap_or_default();
    let opts = Opts::harness();
    // keep the default panic hook quiet but record the message
    std::panic::set_hook(Box::new(|info| {
        let msg = info.to_string();
        println!("PANIC-MESSAGE {}", msg.lines().next().unwrap_or("").chars().take(120).collect::<String>());
    }));
    let r = std::panic::catch_unwind(|| {
        graphql_client_codegen::generate_module_token_stream_from_string(&query, &schema_path, opts.to_real()).map(|t| t.to_string().len())
    });
    match r {
        Ok(Ok(n)) => println!("OUTCOME ok {}", n),
        Ok(Err(e)) => println!("OUTCOME err {}", e.to_string().lines().next().unwrap_or("").chars().take(100).collect::<String>()),
        Err(_) => println!("OUTCOME panic"),
    }
    std::process::exit(0)
}

struct Input {
    family: String,
    schema: String,
    query: String,
}

fn cycle_inputs(rng: &mut Rng, out: &mut Vec<Input>) {
    // spread cycles of length 1..6 on objects / interfaces / unions, with and without __typename,
    // the cycle closed through a field, directly, or through inline fragments
    let schema = r#"
interface Node { id: ID! next: Node friend: Person }
type Person implements Node { id: ID! next: Node friend: Person name: String pet: Pet }
type Robot implements Node { id: ID! next: Node friend: Person model: String }
union Pet = Person | Robot
type Query { node: Node person: Person pet: Pet }
"#;
    for kind in ["object", "interface", "union"] {
        let (ty, root_field) = match kind {
            "object" => ("Person", "person"),
            "interface" => ("Node", "node"),
            _ => ("Pet", "pet"),
        };
        for len in 1..=6usize {
            for with_typename in [true, false] {
                for via in ["direct", "field", "inline"] {
                    if kind == "union" && via == "field" {
                        continue;
                    }
                    let mut q = format!("query Q {{ {} {{ {} ...F0 }} }}\n", root_field, if with_typename { "__typename" } else { "" });
                    for i in 0..len {
                        let next = (i + 1) % len;
                        let tn = if with_typename && (i % 2 == 0 || rng.chance(50)) { "__typename " } else { "" };
                        let body = match via {
                            "direct" => format!("{}...F{}", tn, next),
                            "field" => {
                                if kind == "object" {
                                    format!("{}friend {{ ...F{} }}", tn, next)
                                } else {
                                    format!("{}next {{ {} ...F{} }}", tn, if with_typename { "__typename" } else { "" }, next)
                                }
                            }
                            _ => format!("{}... on Person {{ name ...F{}P }}", tn, next),
                        };
                        q.push_str(&format!("fragment F{} on {} {{ {} }}\n", i, ty, body));
                        if via == "inline" {
                            q.push_str(&format!("fragment F{}P on Person {{ id }}\n", i));
                        }
                    }
                    out.push(Input { family: format!("spread-cycle/{}/{}/len{}/{}", kind, via, len, if with_typename { "typename" } else { "no-typename" }), schema: schema.into(), query: q });
                }
            }
        }
    }
}

/// "lassos": the fragment spread from the operation is NOT on a cycle but leads into one (a plain wrapper
/// around a recursive fragment, a chain into a longer cycle, two wrappers sharing one cycle)
fn lasso_inputs(out: &mut Vec<Input>) {
    let schema = r#"
interface Node { id: ID! next: Node friend: Person }
type Person implements Node { id: ID! next: Node friend: Person name: String }
type Post { title: String author: Person top: Person }
type Query { node: Node person: Person post: Post }
"#;
    for tail in 1..=3usize {
        for cyc in 1..=3usize {
            for via in ["field", "direct"] {
                for abstract_cycle in [false, true] {
                    let cty = if abstract_cycle { "Node" } else { "Person" };
                    let link = if abstract_cycle { "next" } else { "friend" };
                    let tn = if abstract_cycle { "__typename " } else { "" };
                    let mut q = String::from("query Q { post { title ...T0 } }\n");
                    for i in 0..tail {
                        if i + 1 < tail {
                            q.push_str(&format!("fragment T{} on Post {{ title ...T{} }}\n", i, i + 1));
                        } else if abstract_cycle {
                            q.push_str(&format!("fragment T{} on Post {{ author {{ name next {{ __typename ...C0 }} }} }}\n", i));
                        } else {
                            q.push_str(&format!("fragment T{} on Post {{ top {{ name ...C0 }} }}\n", i));
                        }
                    }
                    for j in 0..cyc {
                        let next = (j + 1) % cyc;
                        let body = if via == "field" { format!("{}id {} {{ {}...C{} }}", tn, link, tn, next) } else { format!("{}id ...C{}", tn, next) };
                        q.push_str(&format!("fragment C{} on {} {{ {} }}\n", j, cty, body));
                    }
                    out.push(Input { family: format!("lasso/{}/{}/tail{}/cycle{}", if abstract_cycle { "interface" } else { "object" }, via, tail, cyc), schema: schema.into(), query: q });
                }
            }
        }
    }
    // two wrappers sharing one recursive fragment
    out.push(Input {
        family: "lasso/shared-cycle".into(),
        schema: schema.into(),
        query: "query Q { post { ...A ...B } }\nfragment A on Post { author { ...R } }\nfragment B on Post { top { ...R } }\nfragment R on Person { id friend { ...R } }\n".into(),
    });
}

fn input_cycle_inputs(out: &mut Vec<Input>) {
    for (name, body) in [
        ("self-nullable", "input A { a: A x: Int }"),
        ("self-nonnull", "input A { a: A! x: Int }"),
        ("self-list", "input A { a: [A!]! }"),
        ("pair-nonnull", "input A { b: B! } input B { a: A! }"),
        ("triangle", "input A { b: B } input B { c: C! } input C { a: A }"),
        ("triangle-list-edge", "input A { b: B } input B { c: [C] } input C { a: A! }"),
        ("oneof-self", "input A @oneOf { a: A x: Int }"),
        ("long-chain", "input A { b: B } input B { c: C } input C { d: D } input D { e: E } input E { f: F } input F { a: A }"),
    ] {
        let schema = format!("{}\ntype Query {{ f(a: A): Int }}\n", body);
        out.push(Input { family: format!("input-cycle/{}", name), schema, query: "query Q($a: A) { f(a: $a) }".into() });
    }
}

/// input-type "lassos": the variable's own type is NOT on the cycle but reaches one (a chain of 1..3 plain
/// input types into a cycle of 1..3), and object-literal default values over recursive input types
fn input_lasso_inputs(out: &mut Vec<Input>) {
    for tail in 1..=3usize {
        for cyc in 1..=3usize {
            for edge in ["T", "[T!]", "T!"] {
                let mut schema = String::new();
                for i in 0..tail {
                    let next = if i + 1 < tail { format!("Tail{}", i + 1) } else { "Cyc0".to_string() };
                    schema.push_str(&format!("input Tail{} {{ label: String next: {} }}\n", i, next));
                }
                for j in 0..cyc {
                    let next = format!("Cyc{}", (j + 1) % cyc);
                    // a required edge closes no finite value, which is irrelevant here: generation must terminate
                    let ty = edge.replace('T', &next);
                    schema.push_str(&format!("input Cyc{} {{ x: Int not: {} anyOf: [{}!] }}\n", j, ty, next));
                }
                schema.push_str("type Query { f(a: Tail0, c: Cyc0): Int }\n");
                out.push(Input { family: format!("input-lasso/tail{}/cycle{}/{}", tail, cyc, edge), schema: schema.clone(), query: "query Q($a: Tail0) { f(a: $a) }".into() });
                if tail == 1 {
                    out.push(Input { family: format!("input-lasso/both-variables/cycle{}/{}", cyc, edge), schema, query: "query Q($c: Cyc0, $a: Tail0) { f(a: $a, c: $c) }".into() });
                }
            }
        }
    }
    // default-value literals over recursive input types: written partially, nested, with lists
    let schema = "input Page { first: Int after: Cursor } input Cursor { id: ID page: Page pages: [Page!] }\ninput Req { first: Int after: ReqCursor! } input ReqCursor { page: Req! }\ntype Query { items(page: Page, req: Req): Int }\n";
    for (name, vars) in [
        ("partial", "$page: Page = { first: 10 }"),
        ("nested", "$page: Page = { first: 1, after: { id: \"c\", page: { first: 2, after: { id: \"d\" } } } }"),
        ("with-list", "$page: Page = { after: { pages: [{ first: 1 }, { after: { id: \"x\" } }] } }"),
        ("empty-object", "$page: Page = {}"),
        ("required-cycle-omitted", "$req: Req = { first: 10 }"),
        ("required-cycle-empty", "$req: Req = {}"),
    ] {
        let args = if vars.starts_with("$page") { "page: $page" } else { "req: $req" };
        out.push(Input { family: format!("input-default-literal/{}", name), schema: schema.into(), query: format!("query Q({}) {{ items({}) }}", vars, args) });
    }
}

fn depth_inputs(out: &mut Vec<Input>) {
    for depth in [8usize, 16, 32, 64] {
        // nested selections
        let schema = "type T { t: T x: Int }\ntype Query { t: T }\n".to_string();
        let mut q = String::from("query Q { ");
        for _ in 0..depth {
            q.push_str("t { ");
        }
        q.push('x');
        for _ in 0..depth {
            q.push_str(" }");
        }
        q.push_str(" }");
        out.push(Input { family: format!("nesting/selection/depth{}", depth), schema, query: q });
        // nested type expressions
        let ty = format!("{}Int{}", "[".repeat(depth), "]".repeat(depth));
        let schema = format!("input I {{ v: {} }}\ntype Query {{ f(i: I): {} }}\n", ty, ty);
        out.push(Input { family: format!("nesting/type-expression/depth{}", depth), schema, query: format!("query Q($v: {}, $i: I) {{ f(i: $i) }}", ty) });
        // nested inline fragments
        let schema = "interface I { x: Int }\ntype A implements I { x: Int }\ntype Query { i: I }\n".to_string();
        let mut q = String::from("query Q { i { __typename ");
        for _ in 0..depth {
            q.push_str("... on A { ");
        }
        q.push('x');
        for _ in 0..depth {
            q.push_str(" }");
        }
        q.push_str(" } }");
        out.push(Input { family: format!("nesting/inline-fragments/depth{}", depth), schema, query: q });
    }
}

/// shared fragments without any cycle: a chain of "diamonds" (`F_i { ...L_i ...R_i }`, `L_i { ...F_{i+1} }`,
/// `R_i { ...F_{i+1} }`). The number of spread PATHS doubles per level while the number of fragments grows linearly: a walk
/// that forgets what it has visited (or visits per path) does not finish in any reasonable time
fn dag_inputs(out: &mut Vec<Input>) {
    for (kind, root_ty, leaf) in [("query", "Query", "a"), ("subscription", "Subscription", "tick"), ("mutation", "Mutation", "bump")] {
        for depth in [12usize, 40] {
            for via_field in [false, true] {
                // through fields the diamonds hang below an object field (`next`), otherwise they are spread at one level
                let schema = "type Query { a: Int next: Query }\ntype Subscription { tick: Int next: Subscription }\ntype Mutation { bump: Int next: Mutation }\nschema { query: Query mutation: Mutation subscription: Subscription }\n".to_string();
                if via_field && kind == "subscription" {
                    continue; // (a subscription has one root field; the diamonds are spread at the root there)
                }
                let mut q = format!("{} Op {{ ...F0 }}\n", kind);
                for i in 0..depth {
                    if via_field {
                        q.push_str(&format!("fragment F{i} on {t} {{ {leaf} next {{ ...L{i} ...R{i} }} }}\n", i = i, t = root_ty, leaf = leaf));
                    } else {
                        q.push_str(&format!("fragment F{i} on {t} {{ ...L{i} ...R{i} }}\n", i = i, t = root_ty));
                    }
                    q.push_str(&format!("fragment L{i} on {t} {{ ...F{j} }}\nfragment R{i} on {t} {{ ...F{j} }}\n", i = i, j = i + 1, t = root_ty));
                }
                q.push_str(&format!("fragment F{} on {} {{ {} }}\n", depth, root_ty, leaf));
                out.push(Input { family: format!("dag/diamonds-{}/{}/depth{}", if via_field { "through-a-field" } else { "at-one-level" }, kind, depth), schema, query: q });
            }
        }
    }
}

fn odd_abstract_inputs(out: &mut Vec<Input>) {
    let cases = [
        ("interface-without-implementors", "interface I { x: Int }\ntype Query { i: I }", "query Q { i { __typename x } }"),
        ("union-without-members", "union U\ntype Query { u: U }", "query Q { u { __typename } }"),
        ("union-of-itself", "union U = U\ntype Query { u: U }", "query Q { u { __typename } }"),
        ("union-of-itself-inline", "union U = U\ntype Query { u: U }", "query Q { u { __typename ... on U { __typename } } }"),
        ("union-of-interface", "interface I { x: Int }\ntype A implements I { x: Int }\nunion U = I\ntype Query { u: U }", "query Q { u { __typename ... on I { x } } }"),
        ("interface-implements-unknown", "type A implements Missing { x: Int }\ntype Query { a: A }", "query Q { a { x } }"),
        ("union-unknown-member", "union U = Missing\ntype Query { u: U }", "query Q { u { __typename } }"),
        ("field-of-unknown-type", "type Query { a: Missing }", "query Q { a }"),
        ("no-query-type", "type A { x: Int }", "query Q { x }"),
        ("fragment-on-scalar", "type Query { x: Int }", "query Q { x }\nfragment F on Int { x }"),
        ("inline-without-condition", "type Query { x: Int }", "query Q { ... { x } }"),
        ("duplicate-fragment-names", "type Query { x: Int y: Int }", "query Q { ...F }\nfragment F on Query { x }\nfragment F on Query { y }"),
        ("duplicate-operation-names", "type Query { x: Int y: Int }", "query Q { x }\nquery Q { y }"),
        ("variable-of-unknown-type", "type Query { x: Int }", "query Q($v: Missing) { x }"),
        ("variable-of-object-type", "type T { x: Int }\ntype Query { x: Int }", "query Q($v: T) { x }"),
        ("default-null", "type Query { x: Int }", "query Q($v: Int = null) { x }"),
        ("default-variable", "type Query { x: Int }", "query Q($v: Int = $w) { x }"),
        ("oneof-nonnull-member", "input A @oneOf { a: Int! }\ntype Query { f(a: A): Int }", "query Q($a: A) { f(a: $a) }"),
        ("duplicate-type-names", "type A { x: Int }\ntype A { y: Int }\ntype Query { a: A }", "query Q { a { y } }"),
        ("enum-and-object-same-name", "enum A { X }\ntype A { y: Int }\ntype Query { a: A }", "query Q { a }"),
        // interfaces that "implement" interfaces (the clause is read by the parser and ignored by the generator today), also in cycles
        ("interface-implements-itself", "interface Entity implements Entity { id: ID }\ninterface Node { id: ID }\ntype A implements Entity & Node { id: ID }\ntype Query { node: Node entity: Entity }", "query Q { node { __typename id ... on Entity { id } } }"),
        ("interface-implements-itself-unrelated-query", "interface Entity implements Entity { id: ID }\ninterface Node { id: ID }\ntype A implements Entity { id: ID }\ntype B implements Node { id: ID }\ntype Query { node: Node }", "query Q { node { __typename id ... on B { id } } }"),
        ("interfaces-implement-each-other", "interface P implements C { id: ID }\ninterface C implements P { id: ID }\ntype A implements P & C { id: ID }\ntype Query { p: P c: C }", "query Q { p { __typename id ... on A { id } } c { __typename ... on C { id } } }"),
        ("interface-implements-chain", "interface Base { id: ID }\ninterface Mid implements Base { id: ID }\ninterface Top implements Mid & Base { id: ID }\ntype A implements Top & Mid & Base { id: ID }\ntype Query { top: Top base: Base }", "query Q { top { __typename id } base { __typename ... on A { id } ... on Top { id } } }"),
    ];
    for (n, s, q) in cases {
        out.push(Input { family: format!("odd/{}", n), schema: s.into(), query: q.into() });
    }
}

fn broken_inputs(rng: &mut Rng, out: &mut Vec<Input>) {
    let good_schema = "type T { t: T x: Int }\ntype Query { t: T }\n";
    let good_query = "query Q { t { t { x } } }";
    for i in 0..24 {
        let cut_schema = i % 2 == 0;
        let (mut s, mut q) = (good_schema.to_string(), good_query.to_string());
        let target = if cut_schema { &mut s } else { &mut q };
        match rng.below(4) {
            0 => {
                let at = rng.below(target.len());
                target.truncate(at)
            }
            1 => {
                let at = rng.below(target.len());
                target.insert(at, *rng.pick(&['{', '}', '(', '"', '$', '!', '\0', 'é']))
            }
            2 => *target = target.replace('{', "{{"),
            _ => *target = String::new(),
        }
        out.push(Input { family: format!("broken-syntax/{}", if cut_schema { "schema" } else { "query" }), schema: s, query: q });
    }
}

fn run_worker(exe: &std::path::Path, schema_path: &std::path::Path, query_path: &std::path::Path, timeout: Duration) -> (String, String) {
    let mut child = Command::new(exe)
        .arg("--c17-worker")
        .arg(schema_path)
        .arg(query_path)
        .stdout(Stdio::piped())
        .stderr(Stdio::null())
        .spawn()
        .expect("spawn worker");
    let start = Instant::now();
    loop {
        match child.try_wait().expect("wait") {
            Some(status) => {
                let mut out = String::new();
                child.stdout.take().unwrap().read_to_string(&mut out).ok();
                use std::os::unix::process::ExitStatusExt;
                if let Some(sig) = status.signal() {
                    return (format!("signal-{}", sig), out);
                }
                let kind = out
                    .lines()
                    .find_map(|l| l.strip_prefix("OUTCOME ").map(|r| r.split(' ').next().unwrap_or("").to_string()))
                    .unwrap_or_else(|| format!("exit-{}", status.code().unwrap_or(-1)));
                return (kind, out);
            }
            None => {
                if start.elapsed() > timeout {
                    let _ = child.kill();
                    let _ = child.wait();
                    return ("timeout".into(), String::new());
                }
                std::thread::sleep(Duration::from_millis(2));
            }
        }
    }
}

pub fn run(a: &Args) -> i32 {
    let mut rep = Report::new(
        "C17",
        a,
        "adversarial (schema, query) texts: spread cycles of length 1..6 on objects / interfaces / unions, closed directly, through a field or through inline fragments, with and without __typename; lassos (a non-recursive fragment chain of length 1..3 leading into a spread cycle of length 1..3, on objects and interfaces, through fields or directly; two wrappers sharing one recursive fragment); input-type cycles incl. non-null and @oneOf; input-type lassos (the variable's type is off the cycle: chains of 1..3 input types into cycles of 1..3 through T / [T!] / T! edges); object-literal default values over recursive input types (partial, nested, with lists, omitting a required member of a required cycle); selection / type-expression / inline-fragment nesting to depth 64; acyclic chains of 12 and 40 diamonds of shared fragments (2^depth spread paths over 3*depth+1 fragments) in queries, mutations and subscriptions, spread at one level or below a field; empty, self-referential and ill-formed abstract types; duplicate definitions; broken syntax; the built `graphql-client generate` on a 1600-field document with and without the rustfmt pass; each input runs in its own worker process (exit status / signal / 10 s timeout observed); non-trivial = the input contains a cycle or nesting depth >= 16",
    );
    let mut rng = Rng::new(a.seed);
    let mut inputs = Vec::new();
    cycle_inputs(&mut rng, &mut inputs);
    lasso_inputs(&mut inputs);
    input_cycle_inputs(&mut inputs);
    input_lasso_inputs(&mut inputs);
    depth_inputs(&mut inputs);
    dag_inputs(&mut inputs);
    odd_abstract_inputs(&mut inputs);
    broken_inputs(&mut rng, &mut inputs);
    if rep.thorough() {
        for _ in 0..6 {
            cycle_inputs(&mut rng, &mut inputs);
            broken_inputs(&mut rng, &mut inputs);
        }
    }
    let work = work_dir();
    let exe = std::env::current_exe().unwrap();
    let mut model = Model::spawn();
    for (i, inp) in inputs.iter().enumerate() {
        let sp = work.join(format!("s{}.graphql", i));
        let qp = work.join(format!("q{}.graphql", i));
        std::fs::write(&sp, &inp.schema).unwrap();
        std::fs::write(&qp, &inp.query).unwrap();
        let (kind, out) = run_worker(&exe, &sp, &qp, Duration::from_secs(10));
        let nontrivial = inp.family.contains("cycle") || inp.family.contains("lasso") || inp.family.contains("dag/") || inp.family.contains("default-literal") || inp.family.contains("depth16") || inp.family.contains("depth32") || inp.family.contains("depth64");
        let case_key = format!("{}\n{}", inp.schema, inp.query);
        rep.case(if nontrivial { Some(&case_key) } else { None });
        let fam = inp.family.split('/').take(2).collect::<Vec<_>>().join("/");
        rep.count(&format!("family:{}", fam));
        rep.count(&format!("outcome:{}", kind));
        if rep.samples.len() < 4 && nontrivial && i % 37 == 5 {
            rep.sample(json!({"family": inp.family, "query": inp.query, "outcome": kind}));
        }
        let clean = matches!(kind.as_str(), "ok" | "err" | "panic");
        if !clean {
            rep.fail(&format!("unclean-termination:{}", fam), json!({"family": inp.family, "schema": inp.schema, "query": inp.query, "observed": kind, "worker_output": out}));
        }
        if model.available() {
            let predicted = predict(&mut model, &inp.schema, false, &inp.query, &Opts::harness()).head().unwrap_or("?").to_string();
            if clean && predicted != kind {
                rep.disagree(json!({"family": inp.family, "schema": inp.schema, "query": inp.query, "implementation": kind, "model": predicted, "worker_output": out}));
            } else if clean {
                rep.traces_validated += 1;
            }
        }
    }
    // the command-line delivery form on a large document, with and without the rustfmt pass (the formatted text is well
    // beyond a pipe buffer): it has to end, too
    let cli = std::path::PathBuf::from(std::env::var("CARGO_TARGET_DIR").unwrap_or_else(|_| "/verif/.work/target".into())).join("debug").join("graphql-client");
    if cli.exists() {
        let n_fields = 1600;
        let schema = format!("type Query {{\n{}}}\n", (0..n_fields).map(|k| format!("  field{}: Int\n", k)).collect::<String>());
        let query = format!("query Big {{\n{}}}\n", (0..n_fields).map(|k| format!("  field{}\n", k)).collect::<String>());
        let dir = work.join("cli");
        let _ = std::fs::create_dir_all(&dir);
        std::fs::write(dir.join("schema.graphql"), &schema).unwrap();
        std::fs::write(dir.join("big.graphql"), &query).unwrap();
        for no_formatting in [false, true] {
            let mut cmd = std::process::Command::new(&cli);
            cmd.arg("generate").arg("--schema-path").arg("schema.graphql").arg("big.graphql").current_dir(&dir)
                .stdin(std::process::Stdio::null()).stdout(std::process::Stdio::null()).stderr(std::process::Stdio::null());
            if no_formatting {
                cmd.arg("--no-formatting");
            }
            let fam = format!("cli/large-document/{}", if no_formatting { "no-formatting" } else { "rustfmt" });
            rep.case(Some(&fam));
            rep.count("family:cli/large-document");
            match cmd.spawn() {
                Err(e) => rep.internal.push(format!("cannot run {}: {}", cli.display(), e)),
                Ok(mut child) => {
                    let start = std::time::Instant::now();
                    let outcome = loop {
                        match child.try_wait() {
                            Ok(Some(st)) => break if st.code().is_some() { "exit" } else { "signal" },
                            Ok(None) if start.elapsed() > Duration::from_secs(60) => {
                                let _ = child.kill();
                                let _ = child.wait();
                                break "timeout";
                            }
                            Ok(None) => std::thread::sleep(Duration::from_millis(20)),
                            Err(_) => break "signal",
                        }
                    };
                    rep.count(&format!("outcome:cli-{}", outcome));
                    if outcome != "exit" {
                        rep.fail("unclean-termination:cli/large-document", json!({"family": fam, "observed": outcome, "fields": n_fields,
                            "command": format!("graphql-client generate --schema-path schema.graphql big.graphql{}", if no_formatting { " --no-formatting" } else { "" })}));
                    }
                }
            }
        }
    } else {
        rep.count("cli-binary-not-built");
    }
    let _ = std::fs::remove_dir_all(&work);
    rep.finish()
}
