//! C10 — generated enums are open-world string bijections.
use super::wire::*;
use serde_json::{json, Value};
use vcore::gen::op::*;
use vcore::gen::rng::Rng;
use vcore::gen::schema::*;
use vcore::report::*;
use vcore::sexp::*;

fn near_misses(v: &str) -> Vec<String> {
    let mut out = vec![
        v.to_uppercase(),
        v.to_lowercase(),
        format!("{}_", v),
        format!("_{}", v),
        v.replace('_', ""),
        format!("{} ", v),
        heck::ToUpperCamelCase::to_upper_camel_case(v),
        heck::ToSnakeCase::to_snake_case(v),
    ];
    out.retain(|s| s != v);
    out.sort();
    out.dedup();
    out
}

pub fn run(a: &Args) -> i32 {
    let mut rep = Report::new(
        "C10",
        a,
        "every generated string enum of a compiled universe of random schemas (value names incl. Rust keywords, mixed case, leading underscore, digits; enums reachable from responses, variables and input fields; normalization none / rust; extra derives) x strings (each schema value name, near-misses differing in case / underscore / whitespace, the Rust identifier of the variant, empty, non-ASCII, `Other`) x non-strings; a case = one JSON value round-tripped through the compiled enum type; non-trivial = a schema value name or a near-miss of one; distinct by (enum definition, input)",
    );
    let mut rng = Rng::new(a.seed);
    let n_cases = if rep.thorough() { 250 } else { 40 };
    let ok = OpKnobs { max_depth: 2, ..OpKnobs::default() };
    let mut u = build_universe(&mut rep, &mut rng, "c10", n_cases, &SchemaKnobs { enum_case_twins: true, ..SchemaKnobs::default() }, &ok, default_opts);
    let exe = match u.build.exe.clone() {
        Some(e) => e,
        None => {
            rep.internal.push("no consumer executable".into());
            return rep.finish();
        }
    };
    struct V {
        case: usize,
        module: usize,
        enum_path: String,
        enum_name: String,
        input: Value,
        /// JSON text to send when it is not the canonical rendering of `input` (escaped spellings)
        raw: Option<String>,
        schema_value: bool,
        near: bool,
    }
    let mut vs: Vec<V> = Vec::new();
    let mut tables_checked = 0u64;
    for c in &u.cases {
        if !c.compiled {
            continue;
        }
        for (mi, m) in c.modules.iter().enumerate() {
            for it in m.items.iter().filter(|i| i.head() == Some("gqlenum")) {
                let name = it.items()[1].as_str().unwrap_or("").to_string();
                // the schema enum behind it (by normalized name)
                let schema_enum = c.schema.types.iter().find_map(|t| match t {
                    AType::Enum { name: n, values } => {
                        let nn = if c.opts.normalization_rust { heck::ToUpperCamelCase::to_upper_camel_case(n.as_str()) } else { n.clone() };
                        if nn == name { Some(values.clone()) } else { None }
                    }
                    _ => None,
                });
                let values = match schema_enum {
                    Some(v) => v,
                    None => {
                        rep.internal.push(format!("cannot find schema enum for generated enum {}", name));
                        continue;
                    }
                };
                rep.count_n("enum_values", values.len() as u64);
                rep.count("enums");
                // oracle on the extracted match tables: serialize table = inverse of deserialize table,
                // wire strings are exactly the schema value names
                let ser: Vec<(String, String)> = it.items()[5].items().iter().map(|p| (p.items()[0].as_str().unwrap().to_string(), p.items()[1].as_str().unwrap().to_string())).collect();
                let de: Vec<(String, String)> = it.items()[6].items().iter().map(|p| (p.items()[0].as_str().unwrap().to_string(), p.items()[1].as_str().unwrap().to_string())).collect();
                let wire: Vec<String> = de.iter().map(|p| p.0.clone()).collect();
                let tables_available = !(c.lenient && ser.is_empty() && de.is_empty());
                if tables_available {
                    tables_checked += 1;
                }
                // (as SETS of arms: their order changes nothing on the wire)
                let sorted = |v: &Vec<String>| { let mut v = v.clone(); v.sort(); v };
                let sorted_pairs = |v: &Vec<(String, String)>| { let mut v = v.clone(); v.sort(); v };
                if tables_available && sorted(&wire) != sorted(&values) {
                    rep.fail("enum-wire-names-differ-from-schema", json!({"enum": name, "schema_values": values, "deserialize_arms": wire, "schema": c.sdl, "options": c.opts.describe()}));
                }
                let inv: Vec<(String, String)> = de.iter().map(|(w, v)| (v.clone(), w.clone())).collect();
                if tables_available && sorted_pairs(&inv) != sorted_pairs(&ser) {
                    rep.fail("enum-tables-not-inverse", json!({"enum": name, "ser": ser, "de": de, "schema": c.sdl, "options": c.opts.describe()}));
                }
                // model check of the hypotheses of the Lean theorems on the extracted tables
                if tables_available && u.ctx.model.available() {
                    let r = u.ctx.model.ask(&tagged("enum-wf", vec![it.clone()]));
                    if r.render() != "(ok true)" {
                        rep.disagree(json!({"what": "extracted enum tables do not satisfy the hypotheses of the Lean bijection theorems", "enum": name, "reply": r.render(), "item": it.short(600)}));
                    }
                }
                let path = format!("{}::{}", m.mod_name, name);
                let mut push = |input: Value, schema_value: bool, near: bool| {
                    vs.push(V { case: c.id, module: mi, enum_path: path.clone(), enum_name: name.clone(), input, raw: None, schema_value, near });
                };
                // the same strings spelled with a JSON escape (`\u0041CTIVE`): cannot be borrowed from the input
                let mut escaped: Vec<(Value, String)> = Vec::new();
                for v in values.iter().chain(["not_a_value".to_string()].iter()) {
                    if let Some(first) = v.chars().next() {
                        let rest: String = v.chars().skip(1).collect();
                        let rest_json = serde_json::to_string(&rest).unwrap();
                        escaped.push((json!(v), format!("\"\\u{:04x}{}", first as u32, &rest_json[1..])));
                    }
                }
                for v in &values {
                    push(json!(v), true, false);
                    for nm in near_misses(v) {
                        if !values.contains(&nm) {
                            push(json!(nm), false, true);
                        }
                    }
                }
                for (_, ident) in &de {
                    if !values.contains(ident) {
                        push(json!(ident), false, true);
                    }
                }
                for s in ["", "Other", "ünïcode ✓", "with \"quotes\" and \\ backslash", "line\nbreak", "null"] {
                    if !values.iter().any(|v| v == s) {
                        push(json!(s), false, false);
                    }
                }
                for j in [json!(null), json!(3), json!(true), json!(["A"]), json!({"a": 1}), json!(1.5)] {
                    push(j, false, false);
                }
                for (val, raw) in escaped {
                    let is_schema = values.iter().any(|x| json!(x) == val);
                    vs.push(V { case: c.id, module: mi, enum_path: path.clone(), enum_name: name.clone(), input: val, raw: Some(raw), schema_value: is_schema, near: false });
                }
            }
        }
    }
    let requests: Vec<(usize, String, String, String)> = vs.iter().map(|v| (v.case, "enum".to_string(), v.enum_path.clone(), v.raw.clone().unwrap_or_else(|| v.input.to_string()))).collect();
    let replies = vcore::consumer::run_consumer(&exe, &requests);
    let mut variant_of: std::collections::BTreeMap<(usize, String, String), String> = Default::default();
    for (v, raw) in vs.iter().zip(replies.iter()) {
        let c = &u.cases[v.case];
        let key = format!("{}|{}|{}|{}", c.sdl, v.enum_path, v.input, v.raw.as_deref().unwrap_or(""));
        rep.case(if v.schema_value || v.near { Some(&key) } else { None });
        rep.count(if v.schema_value { "input:schema-value" } else if v.near { "input:near-miss" } else if v.input.is_string() { "input:other-string" } else { "input:non-string" });
        let case_json = |extra: Value| json!({"schema": c.sdl, "options": c.opts.describe(), "enum": v.enum_path, "input": v.input, "implementation_reply": raw, "detail": extra});
        let reply = parse_reply(raw);
        let mut plain = match &reply {
            Reply::Ok(pair) => Reply::Ok(pair[0].clone()),
            Reply::Err(e) => Reply::Err(e.clone()),
            Reply::Other(o) => Reply::Other(o.clone()),
        };
        match (&reply, v.input.as_str()) {
            (Reply::Ok(pair), Some(s)) => {
                if pair[0] != json!(s) {
                    rep.fail("enum-roundtrip-changes-string", case_json(json!({"got": pair[0]})));
                }
                let dbg = pair[1].as_str().unwrap_or("").to_string();
                let is_other = dbg.starts_with("Other(");
                if v.schema_value {
                    if is_other {
                        rep.fail("schema-value-mapped-to-Other", case_json(json!({"debug": dbg})));
                    }
                    // distinct schema values → distinct variants
                    let k = (v.case, v.enum_path.clone(), dbg.clone());
                    if let Some(prev) = variant_of.get(&k) {
                        if prev != s {
                            rep.fail("two-schema-values-share-a-variant", case_json(json!({"debug": dbg, "other_value": prev})));
                        }
                    }
                    variant_of.insert(k, s.to_string());
                } else if !is_other {
                    rep.fail("non-schema-string-mapped-to-a-variant", case_json(json!({"debug": dbg})));
                }
            }
            (Reply::Err(e), Some(_)) => rep.fail("string-rejected-by-enum", case_json(json!({"error": e}))),
            (Reply::Ok(pair), None) => rep.fail("non-string-accepted-by-enum", case_json(json!({"got": pair}))),
            (Reply::Err(_), None) => {}
            (Reply::Other(o), _) => {
                rep.internal.push(format!("consumer reply: {}", o));
                plain = Reply::Other(o.clone());
            }
        }
        if c.lenient {
            continue;
        }
        let m = model_rt(&mut u.ctx.model, env_id(v.case, v.module), &v.enum_name, &v.input);
        match tie(&plain, &m) {
            None => rep.traces_validated += 1,
            Some(d) => rep.disagree(case_json(json!({"what": "serde model", "difference": d}))),
        }
        if rep.samples.len() < 5 && v.near && rep.evaluations % 211 == 5 {
            rep.sample(json!({"enum": v.enum_path, "input": v.input, "reply": raw}));
        }
    }
    rep.extra.insert("enum_tables_checked".into(), json!(tables_checked));
    rep.extra.insert("model_requests".into(), json!(u.ctx.model.requests));
    finish_universe(u);
    rep.finish()
}
