//! C13 — one exact rule maps GraphQL type modifiers to Option / Vec nesting.
//! Exhaustive on the implementation: every type expression to list depth 4 (all `!` placements)
//! × named kinds × positions × {SDL, JSON}.  Oracle = `ATy::rust_of` (written from the property
//! statement).  Tie = IR equality with the Lean model on the same cases.
use vcore::caserun::*;
use vcore::common::*;
use vcore::gen::schema::*;
use vcore::report::*;
use serde_json::json;

struct Kind {
    gql: &'static str,
    composite: bool,
    input_ok: bool,
    output_ok: bool,
}

const KINDS: [Kind; 9] = [
    Kind { gql: "Int", composite: false, input_ok: true, output_ok: true },
    Kind { gql: "Float", composite: false, input_ok: true, output_ok: true },
    Kind { gql: "String", composite: false, input_ok: true, output_ok: true },
    Kind { gql: "Boolean", composite: false, input_ok: true, output_ok: true },
    Kind { gql: "ID", composite: false, input_ok: true, output_ok: true },
    Kind { gql: "DateTime", composite: false, input_ok: true, output_ok: true },
    Kind { gql: "Color", composite: false, input_ok: true, output_ok: true },
    Kind { gql: "Leaf", composite: true, input_ok: false, output_ok: true },
    Kind { gql: "Point", composite: false, input_ok: true, output_ok: false },
];

fn build_schema(shapes: &[ATy], kind: &Kind) -> ASchema {
    let mut types = vec![
        AType::Scalar { name: "DateTime".into() },
        AType::Enum { name: "Color".into(), values: vec!["RED".into(), "GREEN".into()] },
        AType::Object {
            name: "Leaf".into(),
            implements: vec![],
            fields: vec![AField { name: "x".into(), ty: ATy::named("Int"), dep: None }],
            ext_fields: vec![],
        },
        AType::Input { name: "Point".into(), one_of: false, fields: vec![("x".into(), ATy::named("Int"))] },
    ];
    let with = |t: &ATy| -> ATy {
        fn re(t: &ATy, b: &str) -> ATy {
            match t {
                ATy::Named(_) => ATy::named(b),
                ATy::List(i) => ATy::List(Box::new(re(i, b))),
                ATy::NonNull(i) => ATy::NonNull(Box::new(re(i, b))),
            }
        }
        re(t, kind.gql)
    };
    let mut qfields = vec![AField { name: "ok".into(), ty: ATy::named("Boolean"), dep: None }];
    if kind.output_ok {
        for (i, t) in shapes.iter().enumerate() {
            qfields.push(AField { name: format!("f{}", i), ty: with(t), dep: None });
        }
    }
    if kind.input_ok {
        types.push(AType::Input {
            name: "Holder".into(),
            one_of: false,
            fields: shapes.iter().enumerate().map(|(i, t)| (format!("g{}", i), with(t))).collect(),
        });
        types.push(AType::Input {
            name: "Choice".into(),
            one_of: true,
            fields: shapes.iter().enumerate().filter(|(_, t)| !t.is_non_null()).map(|(i, t)| (format!("h{}", i), with(t))).collect(),
        });
    }
    if kind.output_ok {
        // an implementor may NARROW an inherited field: the interface declares the fully nullable form, the object the shape
        fn widen(t: &ATy) -> ATy {
            match t {
                ATy::Named(n) => ATy::named(n),
                ATy::List(i) => ATy::List(Box::new(widen(i))),
                ATy::NonNull(i) => widen(i),
            }
        }
        types.push(AType::Interface { name: "Wide".into(), fields: shapes.iter().enumerate().map(|(i, t)| AField { name: format!("n{}", i), ty: widen(&with(t)), dep: None }).collect() });
        types.push(AType::Object {
            name: "Narrow".into(),
            implements: vec!["Wide".into()],
            fields: shapes.iter().enumerate().map(|(i, t)| AField { name: format!("n{}", i), ty: with(t), dep: None }).collect(),
            ext_fields: vec![],
        });
        qfields.push(AField { name: "narrow".into(), ty: ATy::named("Narrow"), dep: None });
    }
    types.push(AType::Object { name: "Query".into(), implements: vec![], fields: qfields, ext_fields: vec![] });
    ASchema { types, query: Some("Query".into()), mutation: None, subscription: None }
}

fn build_query(shapes: &[ATy], kind: &Kind, directives: bool) -> String {
    // `@include(if: true)` / `@skip(if: false)` leave the selection as it is: the types must not depend on them
    let deco = |i: usize| if !directives { "" } else if i % 2 == 0 { " @include(if: true)" } else { " @skip(if: false)" };
    let mut q = String::from("query Q");
    if kind.input_ok {
        let with = |t: &ATy| t.render().replace("BASE", kind.gql);
        let vars: Vec<String> = shapes.iter().enumerate().map(|(i, t)| format!("$v{}: {}", i, with(t))).collect();
        q.push_str(&format!("({}, $holder: Holder, $choice: Choice)", vars.join(", ")));
    }
    q.push_str(" {\n  ok\n");
    if kind.output_ok {
        for i in 0..shapes.len() {
            if kind.composite {
                q.push_str(&format!("  f{}{} {{ x }}\n", i, deco(i)));
            } else {
                q.push_str(&format!("  f{}{}\n", i, deco(i)));
            }
        }
        q.push_str("  narrow {\n");
        for i in 0..shapes.len() {
            if kind.composite {
                q.push_str(&format!("    n{}{} {{ x }}\n", i, deco(i + 1)));
            } else {
                q.push_str(&format!("    n{}{}\n", i, deco(i + 1)));
            }
        }
        q.push_str("  }\n");
    }
    q.push_str("}\n");
    q
}

pub fn run(a: &Args) -> i32 {
    let mut rep = Report::new(
        "C13",
        a,
        "every type expression with list depth <= 4 (62 shapes: all placements of `!`) x 9 named kinds x positions {response field, field of an object that narrows the interface's declaration, variable, input field, @oneOf member} x {SDL, introspection JSON} x {plain, default values on input fields, normalization rust, literal @include / @skip directives on the selections, built-in scalars re-declared in the SDL}; a case is one (shape, kind, position, format) whose emitted Rust type was read with syn and compared with the rule; non-trivial = at least one list level or a non-null marker",
    );
    let shapes = ATy::all_shapes("BASE", 4);
    let mut ctx = CaseCtx::new();
    let expected_aliases = [("Boolean", "bool"), ("Float", "f64"), ("Int", "i64"), ("ID", "String")];
    for kind in KINDS.iter() {
        let schema = build_schema(&shapes, kind);

        // the rule must not depend on the schema format, on default values written on input fields, or on the
        // normalization option (the kinds used here keep their names under Rust normalization)
        for (is_json, variant) in [(false, "plain"), (true, "plain"), (false, "input-defaults"), (true, "input-defaults"), (false, "normalization-rust"), (true, "normalization-rust"), (false, "directives"), (false, "builtin-scalars-redeclared")] {
            let query = build_query(&shapes, kind, variant == "directives");
            let fmt_owned = format!("{}{}", if is_json { "json" } else { "sdl" }, if variant == "plain" { String::new() } else { format!("+{}", variant) });
            let fmt = fmt_owned.as_str();
            // (some schema printers write `scalar ID`, `scalar String` … next to the custom scalars)
            let knobs = RenderKnobs { input_defaults: variant == "input-defaults", sdl_builtin_scalars: variant == "builtin-scalars-redeclared", ..RenderKnobs::default() };
            let text = if is_json { serde_json::to_string_pretty(&schema.to_json(&knobs)).unwrap() } else { schema.to_sdl(&knobs) };
            let mut opts = Opts::harness();
            opts.normalization_rust = variant == "normalization-rust";
            let res = ctx.run(&text, is_json, &query, &opts);
            if !res.diffs.is_empty() {
                rep.disagree(json!({"kind": kind.gql, "format": fmt, "diffs": res.diffs.iter().take(6).collect::<Vec<_>>()}));
            } else {
                rep.traces_validated += 1;
            }
            let modules = match (&res.real, &res.modules) {
                (RealOutcome::Ok(_), Some(m)) => m,
                // the generator succeeded but the extractor cannot read a construct of the emitted code: a broken tie (the
                // IR-based oracles cannot run), not a refusal of the input
                (RealOutcome::Ok(_), None) => {
                    rep.disagree(json!({"what": "the emitted tokens could not be read into the IR", "file": "c13.rs"}));
                    continue;
                }
                (other, _) => {
                    rep.fail("generation-failed", json!({"kind": kind.gql, "format": fmt, "outcome": format!("{:?}", other), "schema": text, "query": query}));
                    continue;
                }
            };
            let items = &modules[0].items;
            // built-in scalar aliases
            for (n, t) in expected_aliases {
                match find_item(items, "alias", n) {
                    Some(it) if ty_string(&it.items()[3]) == t => {}
                    // (how the built-in scalars reach their Rust types - aliases emitted per module - is the current
                    // mechanism, not part of the rule: a difference is a broken tie)
                    other => rep.disagree(json!({"what": "built-in scalar alias", "alias": n, "expected": t, "found": other.map(|o| o.render()), "format": fmt})),
                }
            }
            let base_rust = kind.gql.to_string();
            let mut check = |rep: &mut Report, position: &str, i: usize, found: Option<String>, expected: String, shape: &ATy| {
                let key = format!("{}|{}|{}|{}", kind.gql, position, fmt, shape.render());
                let nontrivial = shape.has_list() || shape.is_non_null();
                rep.case(if nontrivial { Some(&key) } else { None });
                rep.count(&format!("position:{}", position));
                rep.count(&format!("list_depth:{}", shape.list_depth()));
                if found.as_deref() != Some(expected.as_str()) {
                    rep.fail(
                        "wrong-rust-type",
                        json!({"kind": kind.gql, "position": position, "format": fmt, "graphql_type": shape.render().replace("BASE", kind.gql),
                               "expected_rust": expected, "found_rust": found, "field_index": i,
                               "schema": text, "query": query}),
                    );
                }
                if rep.samples.len() < 4 && i == 37 {
                    rep.sample(json!({"kind": kind.gql, "position": position, "format": fmt,
                        "graphql_type": shape.render().replace("BASE", kind.gql), "rust_type": found}));
                }
            };
            if kind.output_ok {
                let rd = find_item(items, "struct", "ResponseData");
                let fields = rd.map(struct_fields).unwrap_or_default();
                for (i, shape) in shapes.iter().enumerate() {
                    let base = if kind.composite { format!("QF{}", i) } else { base_rust.clone() };
                    let found = fields.iter().find(|f| f.rust == format!("f{}", i)).map(|f| ty_string(f.ty));
                    check(&mut rep, "response-field", i, found, shape.rust_of(&base), shape);
                }
                let narrow = find_item(items, "struct", "QNarrow").map(struct_fields).unwrap_or_default();
                for (i, shape) in shapes.iter().enumerate() {
                    let base = if kind.composite { format!("QNarrowN{}", i) } else { base_rust.clone() };
                    let found = narrow.iter().find(|f| f.rust == format!("n{}", i)).map(|f| ty_string(f.ty));
                    check(&mut rep, "narrowed-inherited-field", i, found, shape.rust_of(&base), shape);
                }
            }
            if kind.input_ok {
                let vars = find_item(items, "struct", "Variables").map(struct_fields).unwrap_or_default();
                let holder = find_item(items, "struct", "Holder").map(struct_fields).unwrap_or_default();
                let choice = find_item(items, "oneof", "Choice").map(enum_variants).unwrap_or_default();
                for (i, shape) in shapes.iter().enumerate() {
                    let found = vars.iter().find(|f| f.rust == format!("v{}", i)).map(|f| ty_string(f.ty));
                    check(&mut rep, "variable", i, found, shape.rust_of(&base_rust), shape);
                    let found = holder.iter().find(|f| f.rust == format!("g{}", i)).map(|f| ty_string(f.ty));
                    check(&mut rep, "input-field", i, found, shape.rust_of(&base_rust), shape);
                    if !shape.is_non_null() {
                        // a @oneOf member holds the value of its (nullable) type, i.e. the non-null form
                        let found = choice.iter().find(|v| v.name == format!("H{}", i)).and_then(|v| v.payload.map(ty_string));
                        let nn = ATy::NonNull(Box::new(shape.clone()));
                        check(&mut rep, "oneof-member", i, found, nn.rust_of(&base_rust), shape);
                    }
                }
            }
        }
    }
    rep.extra.insert("exhaustive".into(), json!(true));
    rep.extra.insert("model_requests".into(), json!(ctx.model.requests));
    // the derive / CLI entry point reads files: the type modifiers must be those of THIS schema file (one query file, two schemas)
    super::wire::path_entry_sequence(&mut rep, &ctx);
    rep.finish()
}
