//! C04 — variables serialize to exactly the operation's declared variables, validly typed.
use super::wire::*;
use serde_json::{json, Map, Value};
use vcore::gen::op::*;
use vcore::gen::rng::Rng;
use vcore::gen::schema::*;
use vcore::report::*;

/// the assignment with every declared nullable variable / input field present (explicit null)
fn with_explicit_nulls(s: &ASchema, ty: &ATy, v: &Value) -> Value {
    match ty {
        ATy::NonNull(inner) => with_explicit_nulls(s, inner, v),
        ATy::List(inner) => match v {
            Value::Array(xs) => Value::Array(xs.iter().map(|x| with_explicit_nulls(s, inner, x)).collect()),
            other => other.clone(),
        },
        ATy::Named(n) => match (s.get(n), v) {
            (Some(AType::Input { one_of: false, fields, .. }), Value::Object(m)) => {
                let mut out = Map::new();
                for (fname, fty) in fields {
                    let inner = m.get(fname).cloned().unwrap_or(Value::Null);
                    out.insert(fname.clone(), with_explicit_nulls(s, fty, &inner));
                }
                Value::Object(out)
            }
            (Some(AType::Input { one_of: true, fields, .. }), Value::Object(m)) => {
                let mut out = Map::new();
                for (k, x) in m {
                    if let Some((_, fty)) = fields.iter().find(|(f, _)| f == k) {
                        out.insert(k.clone(), with_explicit_nulls(s, fty, x));
                    }
                }
                Value::Object(out)
            }
            (_, other) => other.clone(),
        },
    }
}

/// remove some nullable members (a valid assignment may omit them)
fn omit_some_nulls(rng: &mut Rng, v: &Value) -> Value {
    match v {
        Value::Object(m) => {
            let mut out = Map::new();
            for (k, x) in m {
                if x.is_null() && rng.chance(50) {
                    continue;
                }
                out.insert(k.clone(), omit_some_nulls(rng, x));
            }
            Value::Object(out)
        }
        Value::Array(xs) => Value::Array(xs.iter().map(|x| omit_some_nulls(rng, x)).collect()),
        other => other.clone(),
    }
}

/// fixed cases that run first: one input object (and one variable list) with a member of EVERY type
/// expression over a scalar to list depth 2, a nested and a keyword-named member, a @oneOf input
fn corpus() -> Vec<(ASchema, ADoc)> {
    let shapes = ATy::all_shapes("String", 2);
    let mut fields: Vec<(String, ATy)> = shapes.iter().enumerate().map(|(i, t)| (format!("f{}", i), t.clone())).collect();
    fields.push(("type".into(), ATy::named("Int")));
    fields.push(("camelCase".into(), ATy::List(Box::new(ATy::NonNull(Box::new(ATy::named("Int")))))));
    fields.push(("inner".into(), ATy::named("Inner")));
    let schema = ASchema {
        types: vec![
            AType::Input { name: "AllShapes".into(), one_of: false, fields },
            AType::Input { name: "Inner".into(), one_of: false, fields: vec![("ids".into(), ATy::List(Box::new(ATy::NonNull(Box::new(ATy::named("ID")))))), ("again".into(), ATy::named("Inner"))] },
            AType::Input { name: "Pick".into(), one_of: true, fields: vec![("by_id".into(), ATy::named("ID")), ("byName".into(), ATy::named("String")), ("in".into(), ATy::named("Inner"))] },
            AType::Object { name: "Query".into(), implements: vec![], fields: vec![AField { name: "x".into(), ty: ATy::named("Int"), dep: None }], ext_fields: vec![] },
        ],
        query: Some("Query".into()),
        mutation: None,
        subscription: None,
    };
    let mut vars: Vec<AVar> = vec![
        AVar { name: "a".into(), ty: ATy::named("AllShapes"), default: None },
        AVar { name: "b".into(), ty: ATy::NonNull(Box::new(ATy::named("AllShapes"))), default: None },
        AVar { name: "pick".into(), ty: ATy::named("Pick"), default: None },
    ];
    let doc1 = ADoc { ops: vec![AOp { kind: "query", name: "Shapes".into(), vars: vars.clone(), sels: vec![ASel::Field { alias: None, name: "x".into(), sub: vec![] }] }], frags: vec![] };
    vars = shapes.iter().enumerate().map(|(i, t)| AVar { name: format!("v{}", i), ty: t.clone(), default: None }).collect();
    vars.push(AVar { name: "withDefault".into(), ty: ATy::named("Int"), default: Some("7".into()) });
    let doc2 = ADoc { ops: vec![AOp { kind: "query", name: "VarShapes".into(), vars, sels: vec![ASel::Field { alias: None, name: "x".into(), sub: vec![] }] }], frags: vec![] };
    vec![(schema.clone(), doc1.clone()), (schema.clone(), doc1), (schema.clone(), doc2.clone()), (schema, doc2)]
}

pub fn run(a: &Args) -> i32 {
    let mut rep = Report::new(
        "C04",
        a,
        "random operations with 0..3 variables of every input type expression (built-in and custom scalars, enums, input objects nested / recursive / @oneOf, lists to depth 2) compiled into a consumer crate x valid assignments (nullable members null / present / omitted, list lengths 0..3) x skip_serializing_none in {off, on} x normalization in {none, rust}; a case = one assignment deserialized into Variables and serialized through build_query; non-trivial = the assignment contains an input object, a list or a null; distinct by (case, assignment)",
    );
    let mut rng = Rng::new(a.seed);
    let n_cases = if rep.thorough() { 300 } else { 40 };
    let per_op = if rep.thorough() { 40 } else { 14 };
    let ok = OpKnobs { max_depth: 1, fragments: false, ..OpKnobs::default() };
    let mut calls = 0usize;
    let n_corpus = corpus().len();
    let mut u = build_universe_with(&mut rep, &mut rng, "c04", n_cases, &SchemaKnobs::default(), &ok, |rng, s| {
        calls += 1;
        if calls <= n_corpus {
            // the fixed cases: skip_serializing_none on / off alternately, default options otherwise
            let mut o = vcore::common::Opts::harness();
            o.skip_none = calls % 2 == 1;
            return o;
        }
        let mut o = default_opts(rng, s);
        o.skip_none = rng.chance(50);
        o
    }, corpus());
    let exe = match u.build.exe.clone() {
        Some(e) => e,
        None => {
            rep.internal.push("no consumer executable".into());
            return rep.finish();
        }
    };
    struct V {
        case: usize,
        module: usize,
        op: String,
        sent: Value,
        expected: Value,
        nontrivial: bool,
    }
    let mut vs: Vec<V> = Vec::new();
    for c in &u.cases {
        if !c.compiled {
            continue;
        }
        let pg = PayloadGen { s: &c.schema, doc: &c.doc, deny_deprecated: false, max_list: 3, depth_budget: 4, absent_percent: 0 };
        for (mi, op) in c.doc.ops.iter().enumerate() {
            if mi >= c.modules.len() {
                break;
            }
            let op_struct = c.modules[mi].sexp.items()[8].as_str().unwrap_or("").to_string();
            rep.count(&format!("variables:{}", op.vars.len()));
            for _ in 0..(if op.vars.is_empty() { 1 } else { per_op }) {
                let full = pg.variables(&mut rng, op);
                // canonical form of the assignment: all declared members, explicit nulls
                let mut canon = Map::new();
                for v in &op.vars {
                    canon.insert(v.name.clone(), with_explicit_nulls(&c.schema, &v.ty, full.get(&v.name).unwrap_or(&Value::Null)));
                }
                let canon = Value::Object(canon);
                let sent = if op.vars.is_empty() {
                    Value::Null // the unit struct `Variables` is read from (and written as) null
                } else if rng.chance(40) {
                    omit_some_nulls(&mut rng, &canon)
                } else {
                    canon.clone()
                };
                let expected = if op.vars.is_empty() {
                    Value::Null // `struct Variables;` serializes as null
                } else if c.opts.skip_none {
                    drop_nulls(&canon)
                } else {
                    canon.clone()
                };
                let text = canon.to_string();
                let nontrivial = text.contains('{') && text.len() > 2 && (text.contains('[') || text.contains("null") || text.matches('{').count() > 1);
                for v in &op.vars {
                    rep.count(&format!("var_kind:{}", c.schema.kind_of(v.ty.base())));
                }
                vs.push(V { case: c.id, module: mi, op: op_struct.clone(), sent, expected, nontrivial });
            }
        }
    }
    let requests: Vec<(usize, String, String, String)> = vs.iter().map(|v| (v.case, "vars".to_string(), v.op.clone(), v.sent.to_string())).collect();
    let replies = vcore::consumer::run_consumer(&exe, &requests);
    for (v, raw) in vs.iter().zip(replies.iter()) {
        let c = &u.cases[v.case];
        let key = format!("{}|{}|{}", v.case, v.op, v.sent);
        rep.case(if v.nontrivial { Some(&key) } else { None });
        let case_json = |extra: Value| {
            json!({"schema": c.sdl, "query": c.qtext, "options": c.opts.describe(), "operation": v.op, "assignment": v.sent,
                   "implementation_reply": raw, "detail": extra})
        };
        let reply = parse_reply(raw);
        let vars_reply = match &reply {
            Reply::Ok(body) => {
                // exactly the three members
                let keys: Vec<&String> = body.as_object().map(|m| m.keys().collect()).unwrap_or_default();
                let mut sorted: Vec<&str> = keys.iter().map(|s| s.as_str()).collect();
                sorted.sort();
                if sorted != ["operationName", "query", "variables"] {
                    rep.fail("request-body-members", case_json(json!({"members": sorted})));
                }
                let got = canon_numbers(&body["variables"]);
                let want = canon_numbers(&v.expected);
                if got != want {
                    rep.fail("variables-not-as-declared", case_json(json!({"expected_variables": want, "got": got})));
                }
                Reply::Ok(body["variables"].clone())
            }
            Reply::Err(e) => {
                rep.fail("valid-assignment-not-expressible", case_json(json!({"error": e})));
                Reply::Err(e.clone())
            }
            Reply::Other(o) => {
                rep.internal.push(format!("consumer reply: {}", o));
                Reply::Other(o.clone())
            }
        };
        let m = model_rt(&mut u.ctx.model, env_id(v.case, v.module), "Variables", &v.sent);
        match tie(&vars_reply, &m) {
            None => rep.traces_validated += 1,
            Some(d) => rep.disagree(case_json(json!({"what": "serde model", "difference": d}))),
        }
        if rep.samples.len() < 4 && v.nontrivial && rep.evaluations % 53 == 7 {
            rep.sample(json!({"operation": v.op, "assignment": v.sent, "skip_none": c.opts.skip_none, "reply": raw.chars().take(300).collect::<String>()}));
        }
    }
    let not_compiling: Vec<Value> = u.cases.iter().filter(|c| !c.compiled).take(10)
        .map(|c| json!({"errors": c.compile_errors.iter().take(4).collect::<Vec<_>>(), "query": c.qtext, "options": c.opts.describe()})).collect();
    rep.extra.insert("not_compiling".into(), json!(not_compiling));
    rep.extra.insert("model_requests".into(), json!(u.ctx.model.requests));
    finish_universe(u);
    rep.finish()
}
