//! C04 — variables serialize to exactly the operation's declared variables, validly typed.
use super::wire::*;
use serde_json::{json, Map, Value};
use vcore::gen::op::*;
use vcore::gen::rng::Rng;
use vcore::gen::schema::*;
use vcore::report::*;
use vcore::sexp::{st, tagged, Sexp};

/// the assignment with every declared nullable variable / input field present (explicit null)
fn with_explicit_nulls(s: &ASchema, ty: &ATy, v: &Value) -> Value {
    match ty {
        ATy::NonNull(inner) => with_explicit_nulls(s, inner, v),
        ATy::List(inner) => match v {
            Value::Array(xs) => Value::Array(xs.iter().map(|x| with_explicit_nulls(s, inner, x)).collect()),
            other => other.clone(),
        },
        ATy::Named(n) => match (s.get(n), v) {
            (Some(AType::Input { one_of: false, fields, .. }), Value::Object(m)) => {
                let mut out = Map::new();
                for (fname, fty) in fields {
                    let inner = m.get(fname).cloned().unwrap_or(Value::Null);
                    out.insert(fname.clone(), with_explicit_nulls(s, fty, &inner));
                }
                Value::Object(out)
            }
            (Some(AType::Input { one_of: true, fields, .. }), Value::Object(m)) => {
                let mut out = Map::new();
                for (k, x) in m {
                    if let Some((_, fty)) = fields.iter().find(|(f, _)| f == k) {
                        out.insert(k.clone(), with_explicit_nulls(s, fty, x));
                    }
                }
                Value::Object(out)
            }
            (_, other) => other.clone(),
        },
    }
}

/// does `v` hold `null` (or lack a member) at a position the declared type makes non-null? (the part of "valid for the
/// declared input type" that a Rust type can get wrong by being too wide)
fn null_at_non_null(s: &ASchema, ty: &ATy, v: &Value) -> bool {
    match ty {
        ATy::NonNull(inner) => v.is_null() || null_at_non_null(s, inner, v),
        ATy::List(inner) => match v {
            Value::Array(xs) => xs.iter().any(|x| null_at_non_null(s, inner, x)),
            _ => false,
        },
        ATy::Named(n) => match (s.get(n), v) {
            (Some(AType::Input { one_of: false, fields, .. }), Value::Object(m)) => fields.iter().any(|(f, fty)| null_at_non_null(s, fty, m.get(f).unwrap_or(&Value::Null))),
            (Some(AType::Input { one_of: true, fields, .. }), Value::Object(m)) => {
                let set: Vec<&String> = m.iter().filter(|(_, x)| !x.is_null()).map(|(k, _)| k).collect();
                set.len() != 1 || m.iter().any(|(k, x)| fields.iter().find(|(f, _)| f == k).map(|(_, fty)| !x.is_null() && null_at_non_null(s, fty, x)).unwrap_or(true))
            }
            _ => false,
        },
    }
}

/// `v` with ONE non-null position set to null (the `n`-th in a depth-first walk), or `None` when there are fewer
fn null_one_required(s: &ASchema, ty: &ATy, v: &Value, n: &mut usize) -> Option<Value> {
    match ty {
        ATy::NonNull(inner) => {
            if *n == 0 {
                return Some(Value::Null);
            }
            *n -= 1;
            null_one_required(s, inner, v, n)
        }
        ATy::List(inner) => match v {
            Value::Array(xs) => {
                for (i, x) in xs.iter().enumerate() {
                    if let Some(y) = null_one_required(s, inner, x, n) {
                        let mut out = xs.clone();
                        out[i] = y;
                        return Some(Value::Array(out));
                    }
                }
                None
            }
            _ => None,
        },
        ATy::Named(name) => match (s.get(name), v) {
            (Some(AType::Input { one_of: false, fields, .. }), Value::Object(m)) => {
                for (f, fty) in fields {
                    if let Some(x) = m.get(f) {
                        if let Some(y) = null_one_required(s, fty, x, n) {
                            let mut out = m.clone();
                            out.insert(f.clone(), y);
                            return Some(Value::Object(out));
                        }
                    }
                }
                None
            }
            _ => None,
        },
    }
}

/// remove some nullable members (a valid assignment may omit them)
fn omit_some_nulls(rng: &mut Rng, v: &Value) -> Value {
    match v {
        Value::Object(m) => {
            let mut out = Map::new();
            for (k, x) in m {
                if x.is_null() && rng.chance(50) {
                    continue;
                }
                out.insert(k.clone(), omit_some_nulls(rng, x));
            }
            Value::Object(out)
        }
        Value::Array(xs) => Value::Array(xs.iter().map(|x| omit_some_nulls(rng, x)).collect()),
        other => other.clone(),
    }
}

/// a GraphQL value literal as JSON (enum names become strings); `None` if the text is not a literal
fn parse_literal(text: &str) -> Option<Value> {
    fn ws(s: &[char], i: &mut usize) {
        while *i < s.len() && (s[*i].is_whitespace() || s[*i] == ',') {
            *i += 1;
        }
    }
    fn val(s: &[char], i: &mut usize) -> Option<Value> {
        ws(s, i);
        let c = *s.get(*i)?;
        if c == '[' {
            *i += 1;
            let mut out = Vec::new();
            loop {
                ws(s, i);
                if *s.get(*i)? == ']' {
                    *i += 1;
                    return Some(Value::Array(out));
                }
                out.push(val(s, i)?);
            }
        }
        if c == '{' {
            *i += 1;
            let mut out = Map::new();
            loop {
                ws(s, i);
                if *s.get(*i)? == '}' {
                    *i += 1;
                    return Some(Value::Object(out));
                }
                let start = *i;
                while *i < s.len() && (s[*i].is_alphanumeric() || s[*i] == '_') {
                    *i += 1;
                }
                let key: String = s[start..*i].iter().collect();
                ws(s, i);
                if *s.get(*i)? != ':' {
                    return None;
                }
                *i += 1;
                out.insert(key, val(s, i)?);
            }
        }
        if c == '"' {
            let start = *i;
            *i += 1;
            while *i < s.len() && s[*i] != '"' {
                if s[*i] == '\\' {
                    *i += 1;
                }
                *i += 1;
            }
            *i += 1;
            let lit: String = s[start..(*i).min(s.len())].iter().collect();
            return serde_json::from_str(&lit).ok();
        }
        let start = *i;
        while *i < s.len() && !(s[*i].is_whitespace() || ",]}".contains(s[*i])) {
            *i += 1;
        }
        let tok: String = s[start..*i].iter().collect();
        match tok.as_str() {
            "true" => Some(json!(true)),
            "false" => Some(json!(false)),
            "null" => Some(Value::Null),
            t => match serde_json::from_str::<Value>(t) {
                Ok(n) if n.is_number() => Some(n),
                _ => Some(json!(t)), // an enum value
            },
        }
    }
    let chars: Vec<char> = text.chars().collect();
    let mut i = 0;
    let v = val(&chars, &mut i)?;
    ws(&chars, &mut i);
    if i == chars.len() { Some(v) } else { None }
}

/// what a default value means at its declared type (GraphQL input coercion): an Int literal at a Float / ID position,
/// a single value at a list position, absent members of an input object
fn coerce_default(s: &ASchema, ty: &ATy, v: &Value, skip_none: bool) -> Value {
    if v.is_null() {
        return Value::Null;
    }
    match ty {
        ATy::NonNull(i) => coerce_default(s, i, v, skip_none),
        ATy::List(e) => match v {
            Value::Array(xs) => Value::Array(xs.iter().map(|x| coerce_default(s, e, x, skip_none)).collect()),
            single => Value::Array(vec![coerce_default(s, e, single, skip_none)]),
        },
        ATy::Named(n) => match (n.as_str(), v) {
            ("ID", Value::Number(num)) => json!(num.to_string()),
            (_, Value::Object(m)) => match s.get(n) {
                Some(AType::Input { one_of: false, fields, .. }) => {
                    let mut out = Map::new();
                    for (fname, fty) in fields {
                        match m.get(fname) {
                            Some(x) => {
                                out.insert(fname.clone(), coerce_default(s, fty, x, skip_none));
                            }
                            None if !skip_none => {
                                out.insert(fname.clone(), Value::Null);
                            }
                            None => {}
                        }
                    }
                    Value::Object(out)
                }
                Some(AType::Input { one_of: true, fields, .. }) => {
                    let mut out = Map::new();
                    for (k, x) in m {
                        if let Some((_, fty)) = fields.iter().find(|(f, _)| f == k) {
                            out.insert(k.clone(), coerce_default(s, fty, x, skip_none));
                        }
                    }
                    Value::Object(out)
                }
                _ => v.clone(),
            },
            _ => v.clone(),
        },
    }
}

/// fixed cases that run first: one input object (and one variable list) with a member of EVERY type
/// expression over a scalar to list depth 2, a nested and a keyword-named member, a @oneOf input
fn corpus() -> Vec<(ASchema, ADoc)> {
    let shapes = ATy::all_shapes("String", 2);
    let mut fields: Vec<(String, ATy)> = shapes.iter().enumerate().map(|(i, t)| (format!("f{}", i), t.clone())).collect();
    fields.push(("type".into(), ATy::named("Int")));
    fields.push(("camelCase".into(), ATy::List(Box::new(ATy::NonNull(Box::new(ATy::named("Int")))))));
    fields.push(("inner".into(), ATy::named("Inner")));
    let schema = ASchema {
        types: vec![
            AType::Input { name: "AllShapes".into(), one_of: false, fields },
            AType::Input { name: "Inner".into(), one_of: false, fields: vec![("ids".into(), ATy::List(Box::new(ATy::NonNull(Box::new(ATy::named("ID")))))), ("again".into(), ATy::named("Inner"))] },
            AType::Input { name: "Pick".into(), one_of: true, fields: vec![("by_id".into(), ATy::named("ID")), ("byName".into(), ATy::named("String")), ("in".into(), ATy::named("Inner"))] },
            AType::Object { name: "Query".into(), implements: vec![], fields: vec![AField { name: "x".into(), ty: ATy::named("Int"), dep: None }], ext_fields: vec![] },
        ],
        query: Some("Query".into()),
        mutation: None,
        subscription: None,
    };
    let mut vars: Vec<AVar> = vec![
        AVar { name: "a".into(), ty: ATy::named("AllShapes"), default: None },
        AVar { name: "b".into(), ty: ATy::NonNull(Box::new(ATy::named("AllShapes"))), default: None },
        AVar { name: "pick".into(), ty: ATy::named("Pick"), default: None },
    ];
    let doc1 = ADoc { ops: vec![AOp { kind: "query", name: "Shapes".into(), vars: vars.clone(), sels: vec![ASel::Field { alias: None, name: "x".into(), sub: vec![] }] }], frags: vec![] };
    vars = shapes.iter().enumerate().map(|(i, t)| AVar { name: format!("v{}", i), ty: t.clone(), default: None }).collect();
    vars.push(AVar { name: "withDefault".into(), ty: ATy::named("Int"), default: Some("7".into()) });
    let doc2 = ADoc { ops: vec![AOp { kind: "query", name: "VarShapes".into(), vars, sels: vec![ASel::Field { alias: None, name: "x".into(), sub: vec![] }] }], frags: vec![] };
    // default values of every literal kind at every kind of type (both skip-none settings)
    let mut dschema = schema.clone();
    dschema.types.push(AType::Enum { name: "Unit".into(), values: vec!["METER".into(), "type".into(), "lower_case".into()] });
    let dv = |n: &str, t: ATy, d: &str| AVar { name: n.into(), ty: t, default: Some(d.into()) };
    let nn = |t: ATy| ATy::NonNull(Box::new(t));
    let li = |t: ATy| ATy::List(Box::new(t));
    let doc3 = ADoc {
        ops: vec![AOp {
            kind: "query",
            name: "Defaults".into(),
            vars: vec![
                dv("i", ATy::named("Int"), "42"),
                dv("b", nn(ATy::named("Boolean")), "false"),
                dv("f", ATy::named("Float"), "1"),
                dv("g", nn(ATy::named("Float")), "2.5"),
                dv("id", ATy::named("ID"), "7"),
                dv("s", ATy::named("String"), "\"he said \\\"hi\\\" \\\\ \\u00e9\""),
                dv("u", ATy::named("Unit"), "METER"),
                dv("kw", nn(ATy::named("Unit")), "type"),
                dv("lc", ATy::named("Unit"), "lower_case"),
                dv("l", li(ATy::named("Int")), "[1, 2]"),
                dv("lnn", nn(li(nn(ATy::named("Int")))), "[3]"),
                dv("ll", li(li(nn(ATy::named("String")))), "[[\"a\"], []]"),
                dv("single", li(nn(ATy::named("Int"))), "5"),
                dv("us", li(ATy::named("Unit")), "[METER, type]"),
                dv("o", ATy::named("Inner"), "{ ids: [\"a\", 2], again: { ids: [] } }"),
                dv("p", ATy::named("Pick"), "{ by_id: \"x\" }"),
                dv("pin", nn(ATy::named("Pick")), "{ in: { ids: [\"q\"] } }"),
            ],
            sels: vec![ASel::Field { alias: None, name: "x".into(), sub: vec![] }],
        }],
        frags: vec![],
    };
    vec![(schema.clone(), doc1.clone()), (schema.clone(), doc1), (schema.clone(), doc2.clone()), (schema, doc2), (dschema.clone(), doc3.clone()), (dschema, doc3)]
}

pub fn run(a: &Args) -> i32 {
    let mut rep = Report::new(
        "C04",
        a,
        "random operations with 0..3 variables of every input type expression (built-in and custom scalars, enums, input objects nested / recursive / @oneOf, lists to depth 2) compiled into a consumer crate x valid assignments (nullable members null / present / omitted, list lengths 0..3) and the declared default values (every literal kind at every kind of type: the value of `Variables::default_x()` must be the default coerced to the declared type) x skip_serializing_none in {off, on} x normalization in {none, rust}; a case = one assignment deserialized into Variables and serialized through build_query; non-trivial = the assignment contains an input object, a list or a null; distinct by (case, assignment)",
    );
    let mut rng = Rng::new(a.seed);
    let n_cases = if rep.thorough() { 300 } else { 40 };
    let per_op = if rep.thorough() { 40 } else { 14 };
    let ok = OpKnobs { max_depth: 1, fragments: false, ..OpKnobs::default() };
    let mut calls = 0usize;
    let n_corpus = corpus().len();
    let mut u = build_universe_with(&mut rep, &mut rng, "c04", n_cases, &SchemaKnobs::default(), &ok, |rng, s| {
        calls += 1;
        if calls <= n_corpus {
            // the fixed cases: skip_serializing_none on / off alternately, default options otherwise
            let mut o = vcore::common::Opts::harness();
            o.skip_none = calls % 2 == 1;
            return o;
        }
        let mut o = default_opts(rng, s);
        o.skip_none = rng.chance(50);
        o
    }, corpus());
    let exe = match u.build.exe.clone() {
        Some(e) => e,
        None => {
            rep.internal.push("no consumer executable".into());
            return rep.finish();
        }
    };
    struct V {
        case: usize,
        module: usize,
        op: String,
        sent: Value,
        expected: Value,
        nontrivial: bool,
        /// an INVALID assignment (one non-null position nulled): the generated types must not be able to hold it
        invalid: bool,
    }
    let mut vs: Vec<V> = Vec::new();
    for c in &u.cases {
        if !c.compiled {
            continue;
        }
        let pg = PayloadGen { s: &c.schema, doc: &c.doc, deny_deprecated: false, max_list: 3, depth_budget: 4, absent_percent: 0 };
        for (mi, op) in c.doc.ops.iter().enumerate() {
            if mi >= c.modules.len() {
                break;
            }
            let op_struct = c.modules[mi].sexp.items()[8].as_str().unwrap_or("").to_string();
            rep.count(&format!("variables:{}", op.vars.len()));
            for _ in 0..(if op.vars.is_empty() { 1 } else { per_op }) {
                let full = pg.variables(&mut rng, op);
                // canonical form of the assignment: all declared members, explicit nulls
                let mut canon = Map::new();
                for v in &op.vars {
                    canon.insert(v.name.clone(), with_explicit_nulls(&c.schema, &v.ty, full.get(&v.name).unwrap_or(&Value::Null)));
                }
                let canon = Value::Object(canon);
                let sent = if op.vars.is_empty() {
                    Value::Null // the unit struct `Variables` is read from (and written as) null
                } else if rng.chance(40) {
                    omit_some_nulls(&mut rng, &canon)
                } else {
                    canon.clone()
                };
                let expected = if op.vars.is_empty() {
                    Value::Null // `struct Variables;` serializes as null
                } else if c.opts.skip_none {
                    drop_nulls(&canon)
                } else {
                    canon.clone()
                };
                let text = canon.to_string();
                let nontrivial = text.contains('{') && text.len() > 2 && (text.contains('[') || text.contains("null") || text.matches('{').count() > 1);
                for v in &op.vars {
                    rep.count(&format!("var_kind:{}", c.schema.kind_of(v.ty.base())));
                }
                vs.push(V { case: c.id, module: mi, op: op_struct.clone(), sent, expected, nontrivial, invalid: false });
                // the same assignment with one non-null position nulled: if `Variables` can hold it (reads it and writes
                // it back), a value of the generated type serializes to an assignment that is NOT valid for the declared types
                if !op.vars.is_empty() && rng.chance(50) {
                    let mut k = rng.range(0, 5);
                    let mut bad = canon.as_object().cloned().unwrap_or_default();
                    let mut done = false;
                    for v in &op.vars {
                        if let Some(x) = bad.get(&v.name).cloned() {
                            if let Some(y) = null_one_required(&c.schema, &v.ty, &x, &mut k) {
                                bad.insert(v.name.clone(), y);
                                done = true;
                                break;
                            }
                        }
                    }
                    if done {
                        rep.count("assignment:one-non-null-position-nulled");
                        vs.push(V { case: c.id, module: mi, op: op_struct.clone(), sent: Value::Object(bad), expected: Value::Null, nontrivial: true, invalid: true });
                    }
                }
            }
        }
    }
    // ---- default values: `Variables::default_x()` must be the declared default, at the declared type
    {
        let mut dreqs: Vec<(usize, String, String, String)> = Vec::new();
        let mut dmeta: Vec<usize> = Vec::new();
        for c in &u.cases {
            if c.compiled && c.doc.ops.iter().any(|o| o.vars.iter().any(|v| v.default.is_some())) {
                dreqs.push((c.id, "defaults".into(), String::new(), "null".into()));
                dmeta.push(c.id);
            }
        }
        let dreplies = vcore::consumer::run_consumer(&exe, &dreqs);
        for (cid, raw) in dmeta.iter().zip(dreplies.iter()) {
            let c = &u.cases[*cid];
            let mut expected = Vec::new();
            let mut names = Vec::new();
            for (mi, op) in c.doc.ops.iter().enumerate() {
                if mi >= c.modules.len() {
                    break;
                }
                for v in op.vars.iter().filter(|v| v.default.is_some()) {
                    let lit = v.default.as_deref().unwrap_or("");
                    names.push(format!("{}.{} = {}", op.name, v.name, lit));
                    if lit.contains("null") {
                        rep.count("default_values:containing-null");
                    }
                    expected.push(parse_literal(lit).map(|j| coerce_default(&c.schema, &v.ty, &j, c.opts.skip_none)));
                }
            }
            rep.case(Some(&format!("defaults|{}|{}", cid, c.qtext)));
            rep.count_n("default_values", expected.len() as u64);
            match parse_reply(raw) {
                Reply::Ok(Value::Array(got)) if got.len() == expected.len() => {
                    for ((g, e), n) in got.iter().zip(expected.iter()).zip(names.iter()) {
                        match e {
                            Some(e) if canon_numbers(g) == canon_numbers(e) => rep.traces_validated += 1,
                            Some(e) => rep.fail("default-value-differs-from-the-declared-default", json!({"schema": c.sdl, "query": c.qtext, "options": c.opts.describe(), "variable": n, "expected": e, "got": g})),
                            None => rep.internal.push(format!("cannot read the default literal of {}", n)),
                        }
                    }
                }
                Reply::Ok(other) => rep.fail("default-value-differs-from-the-declared-default", json!({"query": c.qtext, "reply": other, "expected_count": expected.len()})),
                _ => rep.internal.push(format!("defaults reply of case {}: {}", cid, raw)),
            }
        }
    }
    // ---- the literal expressions of the `default_*` constructors: model (Model/DefaultLit.lean) = emitted code
    if u.ctx.model.available() {
        // floats compare as numbers (the model keeps the token of the document, the emitted code an f64 literal)
        fn norm(s: &Sexp) -> Sexp {
            if s.head() == Some("float") {
                let t = s.items().get(1).and_then(|x| x.as_str()).unwrap_or("");
                return match t.parse::<f64>() {
                    Ok(f) => tagged("float", vec![st(&format!("{:?}", f))]),
                    Err(_) => s.clone(),
                };
            }
            match s {
                Sexp::List(xs) => Sexp::List(xs.iter().map(norm).collect()),
                other => other.clone(),
            }
        }
        for c in &u.cases {
            if c.lenient || !c.doc.ops.iter().any(|o| o.vars.iter().any(|v| v.default.is_some())) {
                continue;
            }
            let src = match vcore::common::schema_src_sexp(&c.sdl, c.as_json) {
                Ok(s) => s,
                Err(_) => continue,
            };
            let reply = vcore::common::run_model_defaults(&mut u.ctx.model, &src, &c.sdl, &c.qtext, &c.opts);
            if reply.head() != Some("defaults") {
                // (a model driver without this request answers `bad-request`: nothing to compare)
                rep.count(&format!("default-bodies:model-reply:{}", reply.head().unwrap_or("?")));
                continue;
            }
            let model_fns: Vec<(String, Sexp)> = reply.items()[1..].iter().filter_map(|m| {
                let it = m.items();
                Some((it.first()?.as_str()?.to_string(), it.get(1)?.clone()))
            }).collect();
            match vcore::extract::default_bodies(&c.tokens) {
                Err(e) => rep.disagree(json!({"what": "default bodies: the emitted constructors could not be read", "error": e, "query": c.qtext})),
                Ok(mods) => {
                    let real_fns: Vec<(String, Sexp)> = mods.into_iter().flat_map(|(_, fns)| fns).collect();
                    rep.count_n("default-bodies:compared", real_fns.len() as u64);
                    let render = |v: &Vec<(String, Sexp)>| v.iter().map(|(n, b)| format!("{} = {}", n, norm(b).render())).collect::<Vec<_>>();
                    let (a, b) = (render(&model_fns), render(&real_fns));
                    // (one module per operation: the model lists the functions of every operation in order, as the modules do)
                    if a == b {
                        rep.traces_validated += 1;
                    } else {
                        rep.disagree(json!({"what": "default bodies", "model": a, "implementation": b, "schema": c.sdl, "query": c.qtext, "options": c.opts.describe()}));
                    }
                }
            }
        }
    }
    let requests: Vec<(usize, String, String, String)> = vs.iter().map(|v| (v.case, "vars".to_string(), v.op.clone(), v.sent.to_string())).collect();
    let replies = vcore::consumer::run_consumer(&exe, &requests);
    for (v, raw) in vs.iter().zip(replies.iter()) {
        let c = &u.cases[v.case];
        let key = format!("{}|{}|{}", v.case, v.op, v.sent);
        rep.case(if v.nontrivial { Some(&key) } else { None });
        let case_json = |extra: Value| {
            json!({"schema": c.sdl, "query": c.qtext, "options": c.opts.describe(), "operation": v.op, "assignment": v.sent,
                   "implementation_reply": raw, "detail": extra})
        };
        let reply = parse_reply(raw);
        if v.invalid {
            // accepted: then what comes back must not hold null at a non-null position of the declared types
            if let Reply::Ok(body) = &reply {
                let op = &c.doc.ops[v.module];
                let got = &body["variables"];
                let still_bad = op.vars.iter().any(|var| null_at_non_null(&c.schema, &var.ty, got.get(&var.name).unwrap_or(&Value::Null)));
                if still_bad {
                    rep.fail("variables-value-serializes-to-null-at-a-non-null-position", case_json(json!({"got": got})));
                } else {
                    rep.traces_validated += 1;
                }
            } else {
                rep.traces_validated += 1;
            }
            let m = model_rt(&mut u.ctx.model, env_id(v.case, v.module), "Variables", &v.sent);
            let vr = match &reply { Reply::Ok(body) => Reply::Ok(body["variables"].clone()), Reply::Err(e) => Reply::Err(e.clone()), Reply::Other(o) => Reply::Other(o.clone()) };
            if let Some(d) = tie(&vr, &m) {
                rep.disagree(json!({"what": "invalid assignment: serde model vs compiled code", "assignment": v.sent, "diff": d, "query": c.qtext}));
            }
            continue;
        }
        let vars_reply = match &reply {
            Reply::Ok(body) => {
                // exactly the three members
                let keys: Vec<&String> = body.as_object().map(|m| m.keys().collect()).unwrap_or_default();
                let mut sorted: Vec<&str> = keys.iter().map(|s| s.as_str()).collect();
                sorted.sort();
                if sorted != ["operationName", "query", "variables"] {
                    rep.fail("request-body-members", case_json(json!({"members": sorted})));
                }
                let got = canon_numbers(&body["variables"]);
                let want = canon_numbers(&v.expected);
                // an operation without variables: "an object whose keys are exactly the declared names" is `{}`; the unit
                // struct of the current code writes `null`, which every server treats alike: both are accepted
                let no_vars = v.sent.is_null() && v.expected.is_null();
                if got != want && !(no_vars && got == json!({})) {
                    rep.fail("variables-not-as-declared", case_json(json!({"expected_variables": want, "got": got})));
                }
                Reply::Ok(body["variables"].clone())
            }
            Reply::Err(e) => {
                // (for an operation without variables the harness can only offer `null`, which is how the current unit
                // struct is read: a refusal there is a broken tie, reported below, not a refusal of a valid assignment)
                if !(v.sent.is_null() && v.expected.is_null()) {
                    rep.fail("valid-assignment-not-expressible", case_json(json!({"error": e})));
                }
                Reply::Err(e.clone())
            }
            Reply::Other(o) => {
                rep.internal.push(format!("consumer reply: {}", o));
                Reply::Other(o.clone())
            }
        };
        let m = model_rt(&mut u.ctx.model, env_id(v.case, v.module), "Variables", &v.sent);
        match tie(&vars_reply, &m) {
            None => rep.traces_validated += 1,
            Some(d) => rep.disagree(case_json(json!({"what": "serde model", "difference": d}))),
        }
        if rep.samples.len() < 4 && v.nontrivial && rep.evaluations % 53 == 7 {
            rep.sample(json!({"operation": v.op, "assignment": v.sent, "skip_none": c.opts.skip_none, "reply": raw.chars().take(300).collect::<String>()}));
        }
    }
    let not_compiling: Vec<Value> = u.cases.iter().filter(|c| !c.compiled).take(10)
        .map(|c| json!({"errors": c.compile_errors.iter().take(4).collect::<Vec<_>>(), "query": c.qtext, "options": c.opts.describe()})).collect();
    rep.extra.insert("not_compiling".into(), json!(not_compiling));
    rep.extra.insert("model_requests".into(), json!(u.ctx.model.requests));
    finish_universe(u);
    rep.finish()
}
