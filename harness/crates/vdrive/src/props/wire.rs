//! Shared machinery of the wire-level properties (C01, C03, C04, C09, C10, C16): a universe of
//! generated (schema, document, options) cases, compiled into one consumer crate, plus the model
//! environments (serde model over the IR *extracted from the implementation's tokens*).
use serde_json::{json, Value};
use vcore::ast2sexp::{json_sexp, sexp_json};
use vcore::caserun::*;
use vcore::common::*;
use vcore::consumer::*;
use vcore::extract::ExtractedModule;
use vcore::gen::op::*;
use vcore::gen::rng::Rng;
use vcore::gen::schema::*;
use vcore::report::*;
use vcore::sexp::*;

pub struct WCase {
    pub id: usize,
    pub schema: ASchema,
    pub doc: ADoc,
    pub sdl: String,
    pub qtext: String,
    pub opts: Opts,
    pub modules: Vec<ExtractedModule>,
    pub compiled: bool,
    pub compile_errors: Vec<String>,
    pub no_serialize: bool,
    /// IR extracted leniently only (model tie already reported broken): oracles on the implementation still run
    pub lenient: bool,
    /// the emitted token stream, and whether `sdl` holds introspection JSON
    pub tokens: String,
    pub as_json: bool,
}

pub struct Universe {
    pub cases: Vec<WCase>,
    pub build: BuildOutcome,
    pub ctx: CaseCtx,
}

pub fn ops_pairs(modules: &[ExtractedModule]) -> Vec<(String, String)> {
    modules.iter().map(|m| (m.sexp.items()[8].as_str().unwrap_or("").to_string(), m.mod_name.clone())).collect()
}

pub fn custom_scalars(s: &ASchema) -> Vec<String> {
    s.types.iter().filter_map(|t| if let AType::Scalar { name } = t { Some(name.clone()) } else { None }).collect()
}

pub fn prelude_for(s: &ASchema, opts: &Opts) -> String {
    let mut p = String::new();
    for sc in custom_scalars(s) {
        let ident = if opts.normalization_rust { heck::ToUpperCamelCase::to_upper_camel_case(sc.as_str()) } else { sc.clone() };
        p.push_str(&format!("    pub type {} = String;\n", ident));
    }
    // derive delivery form: the struct the derive is written on is the user's
    if let (true, Some(ident)) = (opts.derive_mode, &opts.struct_ident) {
        p.push_str(&format!("    pub struct {};\n", ident));
    }
    p
}

/// env id of module `m` of case `c`
pub fn env_id(case: usize, module: usize) -> usize {
    case * 16 + module
}

pub fn externs_for(s: &ASchema, opts: &Opts) -> Sexp {
    list(
        custom_scalars(s)
            .iter()
            .map(|sc| {
                let ident = if opts.normalization_rust { heck::ToUpperCamelCase::to_upper_camel_case(sc.as_str()) } else { sc.clone() };
                let path = match &opts.scalars_module {
                    Some(m) => format!("{}::{}", m, ident),
                    None => format!("super::{}", ident),
                };
                list(vec![st(&path), tagged("p", vec![st("String")])])
            })
            .collect(),
    )
}

/// Generate `n` cases, run generator + model IR tie on each, compile all accepted ones.
pub fn build_universe(
    rep: &mut Report,
    rng: &mut Rng,
    name: &str,
    n: usize,
    sk: &SchemaKnobs,
    ok: &OpKnobs,
    opts_for: impl FnMut(&mut Rng, &ASchema) -> Opts,
) -> Universe {
    build_universe_with(rep, rng, name, n, sk, ok, opts_for, vec![])
}

fn must_reject_corpus() -> Vec<(ASchema, ADoc)> {
    let f = |n: &str, t: ATy| AField { name: n.into(), ty: t, dep: None };
    let obj = |name: &str, implements: Vec<&str>, fields: Vec<AField>| AType::Object { name: name.into(), implements: implements.into_iter().map(String::from).collect(), fields, ext_fields: vec![] };
    let fld = |n: &str, sub: Vec<ASel>| ASel::Field { alias: None, name: n.into(), sub };
    let schema = ASchema {
        types: vec![
            AType::Interface { name: "Named".into(), fields: vec![f("name", ATy::named("String"))] },
            obj("Person", vec!["Named"], vec![f("name", ATy::named("String")), f("age", ATy::named("Int"))]),
            obj("Robot", vec!["Named"], vec![f("name", ATy::named("String")), f("model", ATy::named("String"))]),
            AType::Union { name: "Thing".into(), members: vec!["Person".into(), "Robot".into()] },
            obj("Query", vec![], vec![f("named", ATy::named("Named")), f("things", ATy::List(Box::new(ATy::NonNull(Box::new(ATy::named("Thing"))))))]),
        ],
        query: Some("Query".into()),
        mutation: None,
        subscription: None,
    };
    let op = |name: &str, sels: Vec<ASel>| AOp { kind: "query", name: name.into(), vars: vec![], sels };
    vec![
        (schema.clone(), ADoc { ops: vec![op("TypenameOnlyInSpread", vec![fld("named", vec![fld("name", vec![]), ASel::Spread { name: "OnPerson".into() }])])],
            frags: vec![AFrag { name: "OnPerson".into(), on: "Person".into(), sels: vec![ASel::Typename, fld("age", vec![])] }] }),
        (schema.clone(), ADoc { ops: vec![op("TypenameOnlyInInline", vec![fld("things", vec![ASel::Inline { on: "Robot".into(), sub: vec![ASel::Typename, fld("model", vec![])] }])])], frags: vec![] }),
        (schema.clone(), ADoc { ops: vec![op("NoTypename", vec![fld("named", vec![fld("name", vec![])])])], frags: vec![] }),
        // valid GraphQL that the generator refuses today ("The spread … is not valid", a documented limit of the supported
        // subset): a condition on an ABSTRACT type whose possible types overlap the parent's. Should it ever be accepted, the
        // fields selected under the condition belong to the response of every runtime type it applies to.
        (schema.clone(), ADoc { ops: vec![op("InterfaceConditionInUnion", vec![fld("things", vec![ASel::Typename, ASel::Inline { on: "Named".into(), sub: vec![fld("name", vec![])] }, ASel::Inline { on: "Robot".into(), sub: vec![fld("model", vec![])] }])])], frags: vec![] }),
        (schema.clone(), ADoc { ops: vec![op("InterfaceSpreadInUnion", vec![fld("things", vec![ASel::Typename, ASel::Spread { name: "NamedPart".into() }])])],
            frags: vec![AFrag { name: "NamedPart".into(), on: "Named".into(), sels: vec![ASel::Typename, fld("name", vec![])] }] }),
        (schema, ADoc { ops: vec![op("UnionConditionInInterface", vec![fld("named", vec![ASel::Typename, ASel::Inline { on: "Thing".into(), sub: vec![ASel::Typename, ASel::Inline { on: "Person".into(), sub: vec![fld("age", vec![])] }] }])])], frags: vec![] }),
    ]
}

/// Deliver the case the way the derive macro does: the options are written as the text of a `#[graphql(...)]` attribute
/// (see `vcore::derive_front::render_attr`) on a struct named after the operation; `Opts::derive_attr` makes the
/// implementation's options come from the derive's own option builder. Returns false when not applicable.
pub fn deliver_by_derive(opts: &mut Opts, op_name: &str, qtext: &str, ctx: &CaseCtx, tag: usize, rng: &mut Rng) -> bool {
    use heck::ToUpperCamelCase;
    if vcore::derive_front::tie_broken().is_some() {
        return false;
    }
    let ident = if opts.normalization_rust { op_name.to_upper_camel_case() } else { op_name.to_string() };
    let qfile = ctx.work.join(format!("derive_query_{}_{}.graphql", tag, rng.below(1_000_000)));
    if syn::parse_str::<syn::Ident>(&ident).is_err() || std::fs::write(&qfile, qtext).is_err() {
        return false;
    }
    opts.derive_mode = true;
    opts.struct_ident = Some(ident.clone());
    opts.operation_name = Some(ident);
    opts.query_file = Some(qfile.to_string_lossy().into_owned());
    opts.derive_attr = Some(vcore::derive_front::render_attr(opts, rng));
    true
}

/// `corpus`: fixed (schema, document) cases that run first (witnesses of known findings, past failures)
#[allow(clippy::too_many_arguments)]
pub fn build_universe_with(
    rep: &mut Report,
    rng: &mut Rng,
    name: &str,
    n: usize,
    sk: &SchemaKnobs,
    ok: &OpKnobs,
    mut opts_for: impl FnMut(&mut Rng, &ASchema) -> Opts,
    corpus: Vec<(ASchema, ADoc)>,
) -> Universe {
    let mut ctx = CaseCtx::new();
    let mut cases = Vec::new();
    let mut codes = Vec::new();
    let mut attempts = 0;
    // documents the generator must reject (no `__typename` at an abstract position except inside a selection on ONE
    // possible type): dropped when rejected; if one is accepted it is an accepted operation and its responses are checked
    let mut corpus = corpus;
    corpus.extend(must_reject_corpus());
    let corpus_len = corpus.len();
    let mut corpus = corpus.into_iter();
    let total = n + corpus.len();
    while cases.len() < total && attempts < total * 3 {
        attempts += 1;
        let mut from_corpus = false;
        let mut typename_edited = false;
        let (schema, mut doc) = match corpus.next() {
            Some(x) => {
                from_corpus = true;
                x
            }
            None => {
                let schema = random_schema(rng, sk);
                let mut doc = random_doc(rng, &schema, ok);
                // A tenth of the random documents lose the `__typename` the generator demands at abstract positions
                // (removed altogether, or kept only inside a fragment / inline fragment on one possible type). Such a
                // document is still executable and its responses are well defined (CollectFields), but the generated
                // tagged enums could not read them, which is why the generator must reject it; if it is accepted all
                // the same, it is an accepted operation like any other and its conforming responses are checked.
                if rng.chance(15) {
                    use vcore::gen::edits::{apply, positions, Edit};
                    let edit = *rng.pick(&[Edit::MissingTypename, Edit::TypenameOnlyInVariantSpread, Edit::TypenameOnlyInVariantInline]);
                    let ps = positions(&schema, &doc);
                    let mut applied = false;
                    if !ps.is_empty() {
                        let start = rng.range(0, ps.len() - 1);
                        for k in 0..ps.len() {
                            let pos = &ps[(start + k) % ps.len()];
                            if let Some((_, d, _)) = apply(&schema, &doc, edit, Some(pos), 0, rng.range(0, 7)) {
                                doc = d;
                                applied = true;
                                break;
                            }
                        }
                    }
                    rep.count(if applied { "document:typename-removed" } else { "document:typename-removal-not-applicable" });
                    typename_edited = applied;
                }
                (schema, doc)
            }
        };
        let mut opts = opts_for(rng, &schema);
        // serde cannot instantiate `Serialize` for a type that contains itself through
        // `#[serde(flatten)]` (E0275, known finding C02-serialize-recursive-flatten): such cases are
        // compiled without `Serialize` and checked for acceptance only
        let no_serialize = doc.has_recursive_fragment();
        if no_serialize {
            opts.response_derives = Some("Debug,PartialEq".into());
        }
        // the SDL text varies in ways that must not matter: `extend type` blocks (also carrying `implements`),
        // re-declared built-in scalars, default values on input fields
        let knobs = RenderKnobs {
            // fixed cases always use `extend type` blocks (carrying `implements`) where the schema has extension fields
            use_extend: from_corpus || rng.chance(30),
            extend_implements: from_corpus || rng.chance(50),
            extensions_first: rng.chance(40),
            sdl_builtin_scalars: rng.chance(15),
            input_defaults: rng.chance(50),
            // (fixed cases always; random ones more often when the schema has a @oneOf input, whose flag a careless merge of
            // the extension's directives would reset)
            input_directive_extensions: from_corpus || rng.chance(if schema.types.iter().any(|t| matches!(t, AType::Input { one_of: true, .. })) { 70 } else { 30 }),
            json_response_members: rng.chance(50),
            ..RenderKnobs::default()
        };
        if knobs.input_defaults {
            rep.count("schema:input-field-defaults");
        }
        // a quarter of the random cases read the schema from introspection JSON instead of SDL
        let as_json = !from_corpus && rng.chance(25);
        let sdl = if as_json { serde_json::to_string(&schema.to_json(&RenderKnobs { json_wrapped: rng.chance(50), ..knobs.clone() })).unwrap() } else { schema.to_sdl(&knobs) };
        rep.count(if as_json { "schema-format:json" } else { "schema-format:sdl" });
        // a fifth of the random documents carry `@include(if: true)` / `@skip(if: false)` on some selections: directives that
        // change neither the response nor (C13) the types
        let qtext = if !from_corpus && rng.chance(20) {
            rep.count("document:literal-directives");
            doc.render_decorated(rng.range(1, 3) as u32)
        } else {
            doc.render()
        };
        // An eighth of the random cases are delivered the way the derive macro delivers them: the options are written
        // as the text of a `#[graphql(...)]` attribute (keys in random positions, booleans spelled out, flags next
        // to `key = value` pairs) and the implementation's options come from the derive's own option builder applied to
        // that text; model and oracles are told the options that were written.
        // (the first four random cases always, two of them with `skip_serializing_none`)
        let n_random = cases.iter().filter(|c: &&WCase| c.id >= corpus_len).count();
        if !from_corpus && n_random < 4 {
            opts.skip_none = n_random % 2 == 0;
        }
        if !from_corpus && !doc.ops.is_empty() && (n_random < 4 || rng.chance(12)) {
            let op = doc.ops[rng.range(0, doc.ops.len() - 1)].clone();
            if deliver_by_derive(&mut opts, &op.name, &qtext, &ctx, cases.len(), rng) {
                rep.count("delivery:derive-attribute");
                // the query text keeps every operation; the derive generates the one named by the struct, and only
                // that one is followed up by the harness
                doc.ops = vec![op];
            }
        }
        let res = ctx.run(&sdl, as_json, &qtext, &opts);
        let lenient = res.lenient;
        if !res.diffs.is_empty() {
            rep.disagree(json!({"what": "IR", "diffs": res.diffs.iter().take(5).collect::<Vec<_>>(), "schema": sdl, "query": qtext, "options": opts.describe()}));
        }
        let (tokens, modules) = match (&res.real, res.modules) {
            (RealOutcome::Ok(t), Some(m)) => (t.clone(), m),
            (other, _) => {
                rep.count(&format!("generation:{}", other.kind()));
                continue;
            }
        };
        if typename_edited {
            rep.count("document:typename-removed-but-accepted");
        }
        let id = cases.len();
        let ops = modules
            .iter()
            .map(|m| (m.sexp.items()[8].as_str().unwrap_or("").to_string(), m.mod_name.clone()))
            .collect();
        let enums = modules
            .iter()
            .flat_map(|m| {
                m.items
                    .iter()
                    .filter(|i| i.head() == Some("gqlenum"))
                    .map(|i| (m.mod_name.clone(), i.items()[1].as_str().unwrap_or("").to_string()))
                    .collect::<Vec<_>>()
            })
            .collect();
        // operations with default values: a function evaluating every `default_*` constructor (kind `defaults`)
        let mut prelude = prelude_for(&schema, &opts);
        {
            let mut calls = Vec::new();
            for (op, (_, module)) in doc.ops.iter().zip(ops_pairs(&modules).iter()) {
                for v in op.vars.iter().filter(|v| v.default.is_some()) {
                    calls.push(format!("{}::Variables::default_{}()", module, v.name));
                }
            }
            if !calls.is_empty() && opts.variables_derives.as_deref().map(|d| d.contains("Deserialize")).unwrap_or(false) {
                prelude.push_str(&format!("    pub fn defaults_json() -> String {{ serde_json::to_string(&serde_json::json!([{}])).unwrap() }}\n", calls.join(", ")));
            }
        }
        codes.push(CaseCode { id, prelude, tokens: tokens.clone(), ops, enums, no_serialize });
        cases.push(WCase { id, schema, doc, sdl, qtext, opts, modules, compiled: false, compile_errors: vec![], no_serialize, lenient, tokens, as_json });
    }
    let build = build_consumer(name, &codes, true, &[]);
    for c in cases.iter_mut() {
        c.compiled = build.compiled.contains(&c.id);
        if let Some(errs) = build.failed.get(&c.id) {
            c.compile_errors = errs.clone();
        }
    }
    for e in &build.global_errors {
        rep.internal.push(format!("consumer build: {}", e));
    }
    // a generated module that does not compile cannot keep any promise about the wire: a failure of the property being
    // checked, unless the input falls in an open finding recorded under C02 (class computed from the input)
    for c in cases.iter().filter(|c| !c.compiled) {
        let codes: Vec<String> = c.compile_errors.clone();
        match super::c02::known_compile_class(&c.schema, &c.doc, &c.opts, &codes) {
            Some(class) => rep.count(&format!("not-compiling:recorded-under-C02:{}", class)),
            None => rep.fail(
                "generated-code-does-not-compile",
                json!({"errors": c.compile_errors.iter().take(6).collect::<Vec<_>>(), "schema": c.sdl, "query": c.qtext, "options": c.opts.describe()}),
            ),
        }
    }
    rep.count_n("cases_generated", cases.len() as u64);
    rep.count_n("cases_compiled", build.compiled.len() as u64);
    rep.count_n("cases_not_compiling", build.failed.len() as u64);
    rep.extra.insert("consumer_build_s".into(), json!(build.wall_s));
    rep.extra.insert("consumer_build_rounds".into(), json!(build.rounds));
    // model environments
    if ctx.model.available() {
        for c in &cases {
            if !c.compiled || c.lenient {
                continue;
            }
            for (mi, m) in c.modules.iter().enumerate() {
                let r = ctx.model.ask(&tagged(
                    "env-set",
                    vec![atom(&env_id(c.id, mi).to_string()), list(m.items.clone()), externs_for(&c.schema, &c.opts)],
                ));
                if r.head() != Some("ok") {
                    rep.internal.push(format!("env-set refused: {}", r.short(200)));
                }
            }
        }
    }
    Universe { cases, build, ctx }
}

pub enum Reply {
    Ok(Value),
    Err(String),
    Other(String),
}

pub fn parse_reply(s: &str) -> Reply {
    if let Some(rest) = s.strip_prefix("ok ") {
        match serde_json::from_str::<Value>(rest) {
            Ok(v) => Reply::Ok(v),
            Err(e) => Reply::Other(format!("unparsable ok reply: {}", e)),
        }
    } else if let Some(rest) = s.strip_prefix("err ") {
        Reply::Err(rest.to_string())
    } else {
        Reply::Other(s.to_string())
    }
}

/// the model's `to_value(from_value(j))` at type `ty` in environment `env`
pub fn model_rt(model: &mut vcore::model::Model, env: usize, ty: &str, j: &Value) -> Sexp {
    model.ask(&tagged("rt", vec![atom(&env.to_string()), tagged("p", vec![st(ty)]), json_sexp(j)]))
}

/// compare an implementation reply with the model's; returns a description of the disagreement
pub fn tie(reply: &Reply, model: &Sexp) -> Option<String> {
    match (reply, model.head()) {
        (_, Some("nomodel")) => None,
        (Reply::Ok(v), Some("ok")) => {
            let mv = sexp_json(&model.items()[1]).unwrap_or(Value::Null);
            if canon_numbers(v) == canon_numbers(&mv) {
                None
            } else {
                Some(format!("both accept, values differ: implementation {} / model {}", v, mv))
            }
        }
        (Reply::Err(_), Some("err")) => None,
        (Reply::Ok(v), _) => Some(format!("implementation accepts ({}), model: {}", v, model.short(200))),
        (Reply::Err(e), _) => Some(format!("implementation rejects ({}), model: {}", e, model.short(200))),
        (Reply::Other(o), _) => Some(format!("implementation: {} / model {}", o, model.short(200))),
    }
}

/// witnesses of the known findings of C01 (kept small; the payload generator does the rest)
pub fn c01_corpus() -> Vec<(ASchema, ADoc)> {
    let f = |n: &str, t: ATy| AField { name: n.into(), ty: t, dep: None };
    let schema = ASchema {
        types: vec![
            AType::Interface { name: "Animal".into(), fields: vec![f("name", ATy::NonNull(Box::new(ATy::named("String")))), f("nick", ATy::named("String"))] },
            AType::Object {
                name: "Dog".into(),
                implements: vec!["Animal".into()],
                fields: vec![f("name", ATy::NonNull(Box::new(ATy::named("String")))), f("nick", ATy::named("String")), f("barks", ATy::named("Boolean"))],
                ext_fields: vec![],
            },
            AType::Object {
                name: "Cat".into(),
                implements: vec!["Animal".into()],
                fields: vec![f("name", ATy::NonNull(Box::new(ATy::named("String")))), f("nick", ATy::named("String")), f("meows", ATy::named("Boolean"))],
                ext_fields: vec![],
            },
            AType::Object { name: "Query".into(), implements: vec![], fields: vec![f("animal", ATy::named("Animal")), f("dog", ATy::named("Dog"))], ext_fields: vec![] },
        ],
        query: Some("Query".into()),
        mutation: None,
        subscription: None,
    };
    let fld = |n: &str, sub: Vec<ASel>| ASel::Field { alias: None, name: n.into(), sub };
    let mk = |sels: Vec<ASel>, frags: Vec<AFrag>| ADoc { ops: vec![AOp { kind: "query", name: "W".into(), vars: vec![], sels }], frags };
    vec![
        // the key `name` is read by the interface-level struct and by the Dog variant
        (schema.clone(), mk(vec![fld("animal", vec![ASel::Typename, fld("name", vec![]), ASel::Inline { on: "Dog".into(), sub: vec![fld("name", vec![]), fld("barks", vec![])] }])], vec![])),
        // two spreads on the same object select the same key
        (
            schema.clone(),
            mk(
                vec![fld("dog", vec![ASel::Spread { name: "A".into() }, ASel::Spread { name: "B".into() }])],
                vec![AFrag { name: "A".into(), on: "Dog".into(), sels: vec![fld("name", vec![]), fld("barks", vec![])] }, AFrag { name: "B".into(), on: "Dog".into(), sels: vec![fld("name", vec![]), fld("nick", vec![])] }],
            ),
        ),
        // a fragment on an interface under an object-typed parent is dropped
        (schema.clone(), mk(vec![fld("dog", vec![fld("barks", vec![]), ASel::Inline { on: "Animal".into(), sub: vec![fld("nick", vec![])] }])], vec![])),
        // ... and so is an INLINE fragment on the object type itself (`dog { ... on Dog { barks } name }`), also one nested in a variant
        (schema.clone(), mk(vec![fld("dog", vec![ASel::Inline { on: "Dog".into(), sub: vec![fld("barks", vec![])] }, fld("name", vec![])])], vec![])),
        (schema.clone(), mk(vec![fld("animal", vec![ASel::Typename, ASel::Inline { on: "Dog".into(), sub: vec![fld("name", vec![]), ASel::Inline { on: "Dog".into(), sub: vec![fld("barks", vec![])] }] }])], vec![])),
        // `Cat` joins the interface only through `extend type Cat implements Animal { meows }` (must hold: not a finding)
        (
            {
                let mut s2 = schema.clone();
                for t in s2.types.iter_mut() {
                    if let AType::Object { name, fields, ext_fields, .. } = t {
                        if name == "Cat" {
                            let i = fields.iter().position(|f| f.name == "meows").unwrap();
                            let m = fields.remove(i);
                            ext_fields.push(m);
                        }
                    }
                }
                s2
            },
            // (no inline fragment on `Cat`: a payload of runtime type Cat still has to select its own unit variant)
            mk(vec![fld("animal", vec![ASel::Typename, fld("nick", vec![]), ASel::Inline { on: "Dog".into(), sub: vec![fld("barks", vec![])] }])], vec![]),
        ),
        // two selections on one variant, one of them an inline fragment whose body is a single spread: both
        // fragments have to contribute to the variant struct (must hold: repaired defect)
        (
            schema.clone(),
            mk(
                vec![fld("animal", vec![ASel::Typename, ASel::Inline { on: "Dog".into(), sub: vec![ASel::Spread { name: "DF".into() }] }, ASel::Spread { name: "DG".into() }, ASel::Inline { on: "Cat".into(), sub: vec![ASel::Spread { name: "CF".into() }] }, ASel::Inline { on: "Cat".into(), sub: vec![ASel::Spread { name: "CG".into() }] }])],
                vec![
                    AFrag { name: "DF".into(), on: "Dog".into(), sels: vec![fld("name", vec![])] },
                    AFrag { name: "DG".into(), on: "Dog".into(), sels: vec![fld("barks", vec![])] },
                    AFrag { name: "CF".into(), on: "Cat".into(), sels: vec![fld("nick", vec![])] },
                    AFrag { name: "CG".into(), on: "Cat".into(), sels: vec![fld("meows", vec![])] },
                ],
            ),
        ),
    ]
}

/// response keys collected for runtime type `rt` from the selection set `sels` written on `parent`. At an abstract
/// `parent` the `__typename` selected by a fragment ON THAT SAME abstract type is not a second reader's key: the
/// tag is shared with (borrowed by) such a fragment (`C01.E2E.variantspread_lossless`, part (b))
fn overlap_keys(s: &ASchema, frags: &[AFrag], parent: &str, sels: &[ASel], rt: &str, out: &mut Vec<String>, depth: usize) {
    if depth > 12 {
        return;
    }
    for sel in sels {
        match sel {
            ASel::Typename => out.push("__typename".into()),
            ASel::Field { alias, name, .. } => out.push(alias.clone().unwrap_or_else(|| name.clone())),
            ASel::Inline { on, sub } => {
                if s.possible_types(on).iter().any(|p| p == rt) {
                    overlap_keys(s, frags, on, sub, rt, out, depth + 1)
                }
            }
            ASel::Spread { name } => {
                if let Some(f) = frags.iter().find(|f| &f.name == name) {
                    if s.possible_types(&f.on).iter().any(|p| p == rt) {
                        let mut inner = Vec::new();
                        overlap_keys(s, frags, &f.on, &f.sels, rt, &mut inner, depth + 1);
                        if s.is_abstract(parent) && f.on == parent {
                            inner.retain(|k| k != "__typename");
                        }
                        out.extend(inner);
                    }
                }
            }
        }
    }
}

/// class of the known finding the OPERATION `op` of a (schema, document) falls into, if any: only the operation's own
/// selection sets and the fragments it reaches count (a shape in another operation or in an unused fragment explains nothing)
pub fn c01_finding_class_op(s: &ASchema, doc: &ADoc, op: Option<&AOp>) -> Option<&'static str> {
    fn walk(s: &ASchema, doc: &ADoc, parent: &str, sels: &[ASel], found: &mut Option<&'static str>, seen: &mut Vec<String>) {
        // dropped selections: condition on an abstract type under an object parent
        for sel in sels {
            let cond = match sel {
                ASel::Inline { on, .. } => Some(on.clone()),
                ASel::Spread { name } => doc.frag(name).map(|f| f.on.clone()),
                _ => None,
            };
            if let Some(c) = cond {
                if !s.is_abstract(parent) && c != parent && s.is_abstract(&c) {
                    *found = Some("fragment-on-abstract-type-under-object-parent");
                }
                // an INLINE fragment under an object-typed parent (also one on the object type itself) is dropped as well;
                // a SPREAD of a fragment on the object type itself is a flattened member and is kept
                if !s.is_abstract(parent) && matches!(sel, ASel::Inline { .. }) && found.is_none() {
                    *found = Some("inline-fragment-under-object-parent");
                }
            }
        }
        // overlapping keys for some runtime type
        for rt in s.possible_types(parent) {
            let mut keys = Vec::new();
            overlap_keys(s, &doc.frags, parent, sels, &rt, &mut keys, 0);
            let mut sorted = keys.clone();
            sorted.sort();
            sorted.dedup();
            if sorted.len() != keys.len() && found.is_none() {
                *found = Some("overlapping-response-keys");
            }
        }
        let fields = s.fields_of(parent);
        for sel in sels {
            match sel {
                ASel::Field { name, sub, .. } => {
                    if let Some(f) = fields.iter().find(|f| &f.name == name) {
                        if s.is_composite(f.ty.base()) {
                            walk(s, doc, f.ty.base(), sub, found, seen);
                        }
                    }
                }
                ASel::Inline { on, sub } => walk(s, doc, on, sub, found, seen),
                ASel::Spread { name } => {
                    // the body of a reached fragment, once
                    if !seen.contains(name) {
                        seen.push(name.clone());
                        if let Some(f) = doc.frag(name) {
                            let (on, fs) = (f.on.clone(), f.sels.clone());
                            walk(s, doc, &on, &fs, found, seen);
                        }
                    }
                }
                _ => {}
            }
        }
    }
    let mut found = None;
    let mut seen = Vec::new();
    let ops: Vec<&AOp> = match op {
        Some(o) => vec![o],
        None => doc.ops.iter().collect(),
    };
    for op in ops {
        let root = match op.kind {
            "query" => s.query.clone(),
            "mutation" => s.mutation.clone(),
            _ => s.subscription.clone(),
        };
        if let Some(r) = root {
            walk(s, doc, &r, &op.sels, &mut found, &mut seen);
        }
    }
    found
}

pub fn finish_universe(u: Universe) {
    remove_consumer(&u.build);
}

pub fn default_opts(rng: &mut Rng, s: &ASchema) -> Opts {
    let mut o = Opts::harness();
    o.other_variant = rng.chance(35);
    o.skip_none = rng.chance(35);
    o.deprecation = *rng.pick(&["warn", "allow", "deny"]);
    // `self` and `Self` enum values collide after Rust normalization (finding C02-name-collision)
    let collide = s.types.iter().any(|t| match t {
        AType::Enum { values, .. } => {
            use heck::ToUpperCamelCase;
            let mut ids: Vec<String> = values.iter().map(|v| v.to_upper_camel_case()).collect();
            let n = ids.len();
            ids.sort();
            ids.dedup();
            ids.len() != n
        }
        _ => false,
    });
    o.normalization_rust = !collide && rng.chance(30);
    o
}

/// The path-based entry point (`generate_module_token_stream`, what the derive and the CLI call), several files in ONE
/// process: every call must give exactly what the string-based entry point gives for the texts of THAT query file and THAT
/// schema file - also for files whose names differ only in bytes that are not UTF-8, and for one query file used with two
/// schema files (whose definitions are laid out differently). Shared by the checks whose property is about the generated
/// types (C01, C05, C13): a wrong file or a stale resolution gives the types of another operation or schema.
#[cfg(unix)]
pub fn path_entry_sequence(rep: &mut Report, ctx: &CaseCtx) {
    use std::os::unix::ffi::OsStringExt;
    let dir = ctx.work.join(format!("c05_paths_{}", std::process::id()));
    let _ = std::fs::create_dir_all(&dir);
    let schema_v1 = "type Item { id: ID! name: String price: Float }\ntype Query { items: [Item!]! echo: Int }\n";
    let schema_v2 = "type Extra { sku: Int! }\ntype Item { id: ID! sku: Int! name: String }\ntype Query { extra: Extra items: [Item!]! echo: Int }\n";
    let s1 = dir.join("schema_v1.graphql");
    let s2 = dir.join("schema_v2.graphql");
    let _ = std::fs::write(&s1, schema_v1);
    let _ = std::fs::write(&s2, schema_v2);
    let name = |bytes: &[u8]| dir.join(std::ffi::OsString::from_vec(bytes.to_vec()));
    let files: Vec<(std::path::PathBuf, String)> = vec![
        (name(b"q\xFF.graphql"), "# first file\nquery Alpha { echo }\n".to_string()),
        (name(b"q\xFE.graphql"), "# second file\nquery Beta { items { id } }\n".to_string()),
        (name(b"plain.graphql"), "query Inventory { items { id name } }\n".to_string()),
    ];
    let mut calls: Vec<(usize, &std::path::PathBuf)> = Vec::new();
    for (i, (p, text)) in files.iter().enumerate() {
        if std::fs::write(p, text).is_ok() {
            calls.push((i, &s1));
        }
    }
    // the same query files again, in reverse, then the last one against the second schema and back
    let again: Vec<(usize, &std::path::PathBuf)> = calls.iter().rev().cloned().collect();
    calls.extend(again);
    calls.push((2, &s2));
    calls.push((2, &s1));
    for (i, schema_path) in calls {
        let (qpath, text) = &files[i];
        let by_path = std::panic::catch_unwind(std::panic::AssertUnwindSafe(|| graphql_client_codegen::generate_module_token_stream(qpath.clone(), schema_path, Opts::harness().to_real()).map(|t| t.to_string()).map_err(|e| e.to_string())));
        let by_text = std::panic::catch_unwind(std::panic::AssertUnwindSafe(|| graphql_client_codegen::generate_module_token_stream_from_string(text, schema_path, Opts::harness().to_real()).map(|t| t.to_string()).map_err(|e| e.to_string())));
        rep.case(Some(&format!("paths|{}|{}", i, schema_path.display())));
        rep.count("path-based-call");
        match (by_path, by_text) {
            (Ok(a), Ok(b)) if a == b => rep.traces_validated += 1,
            (Ok(a), Ok(b)) => rep.fail("path-based-generation-uses-another-file", json!({"query_file": qpath.to_string_lossy(), "schema_file": schema_path.to_string_lossy(), "query": text,
                "by_path": a.map(|t| t.chars().take(600).collect::<String>()), "by_text": b.map(|t| t.chars().take(600).collect::<String>())})),
            _ => rep.fail("path-based-generation-uses-another-file", json!({"query_file": qpath.to_string_lossy(), "what": "one of the two entry points panicked"})),
        }
    }
    // a schema path with `..` after a SYMLINKED directory denotes what the file system says, not its lexical normal form:
    // `ws/client/../schema.graphql` with `ws/client -> checkouts/sub` is `checkouts/schema.graphql`, not `ws/schema.graphql`
    {
        let ws = dir.join("ws");
        let co = dir.join("checkouts");
        let _ = std::fs::create_dir_all(&ws);
        let _ = std::fs::create_dir_all(co.join("sub"));
        let _ = std::fs::write(ws.join("schema.graphql"), "type Ship { name: String tonnage: Int }\ntype Query { ship: Ship }\n");
        let _ = std::fs::write(co.join("schema.graphql"), "type Ship { name: String }\ntype Query { ship: Ship }\n");
        let linked = std::os::unix::fs::symlink(co.join("sub"), ws.join("client")).is_ok();
        let q = "query Q { ship { name tonnage } }\n";
        let run = |schema_path: &std::path::Path| -> String {
            match std::panic::catch_unwind(std::panic::AssertUnwindSafe(|| graphql_client_codegen::generate_module_token_stream_from_string(q, schema_path, Opts::harness().to_real()).map(|t| t.to_string()).map_err(|e| e.to_string()))) {
                Ok(Ok(t)) => format!("ok:{}", t.len()),
                Ok(Err(e)) => format!("err:{}", e),
                Err(_) => "panic".to_string(),
            }
        };
        if linked {
            let first = run(&ws.join("schema.graphql"));
            let through_link = run(&ws.join("client").join("..").join("schema.graphql"));
            let direct = run(&co.join("schema.graphql"));
            rep.case(Some("paths|symlinked-parent"));
            rep.count("path-based-call");
            if first.starts_with("ok:") && through_link == direct && direct.starts_with("err:") {
                rep.traces_validated += 1;
            } else {
                rep.fail("schema-path-resolved-lexically", json!({"query": q, "valid_against_ws_schema": first, "through_symlinked_parent": through_link, "same_file_by_its_direct_path": direct,
                    "what": "`ws/client/../schema.graphql` (ws/client is a symlink into checkouts/) is checkouts/schema.graphql, where `tonnage` does not exist: the operation must be refused exactly as through the direct path"}));
            }
        }
    }
    let _ = std::fs::remove_dir_all(&dir);
}

#[cfg(not(unix))]
pub fn path_entry_sequence(_rep: &mut Report, _ctx: &CaseCtx) {}
