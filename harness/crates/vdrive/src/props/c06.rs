//! C06 — operations the schema cannot answer are never turned into code.
//! valid (schema, document) pairs × every single invalidating edit of the rule catalogue × every
//! applicable position.  Oracle (implementation alone): an edited document must not yield `Ok`.
//! Tie: `resolve`'s accept/reject in the Lean model; the Lean specification `Valid` must call every
//! baseline valid and every edited document invalid (otherwise the *harness* is wrong: INTERNAL).
use serde_json::json;
use vcore::ast2sexp::query_doc_sexp;
use vcore::caserun::*;
use vcore::common::*;
use vcore::gen::edits::*;
use vcore::gen::op::*;
use vcore::gen::rng::Rng;
use vcore::gen::schema::*;
use vcore::report::*;
use vcore::sexp::*;

struct ModelVerdict {
    resolve: String,
    valid_strict: bool,
    valid_lenient: bool,
}

fn ask_model(ctx: &mut CaseCtx, schema_text: &str, query_text: &str) -> Option<ModelVerdict> {
    if !ctx.model.available() {
        return None;
    }
    let src = schema_src_sexp(schema_text, false).ok()?;
    let doc = match graphql_parser::parse_query::<String>(query_text) {
        Ok(d) => d,
        Err(_) => return Some(ModelVerdict { resolve: "err".into(), valid_strict: false, valid_lenient: false }),
    };
    let r = ctx.model.ask(&tagged("c06", vec![src, query_doc_sexp(&doc)]));
    let it = r.items();
    if r.head() != Some("c06") {
        return None;
    }
    Some(ModelVerdict {
        resolve: it[1].as_str()?.to_string(),
        valid_strict: it[2].as_str()? == "true",
        valid_lenient: it[3].as_str()? == "true",
    })
}

/// fixed (schema, document) pairs that run first: shapes a random draw may not contain on a given seed — two abstract
/// types without a common possible type (interface / interface, interface / union), selections on all three kinds of
/// parent at depth 1 and inside a fragment
fn fixed_pairs() -> Vec<(ASchema, ADoc)> {
    let f = |n: &str, t: ATy| AField { name: n.into(), ty: t, dep: None };
    let obj = |name: &str, implements: Vec<&str>, fields: Vec<AField>| AType::Object { name: name.into(), implements: implements.into_iter().map(String::from).collect(), fields, ext_fields: vec![] };
    let fld = |n: &str, sub: Vec<ASel>| ASel::Field { alias: None, name: n.into(), sub };
    let schema = ASchema {
        types: vec![
            AType::Interface { name: "Named".into(), fields: vec![f("name", ATy::named("String"))] },
            AType::Interface { name: "Tagged".into(), fields: vec![f("tag", ATy::named("String"))] },
            obj("Person", vec!["Named"], vec![f("name", ATy::named("String")), f("friend", ATy::named("Named"))]),
            obj("Item", vec!["Tagged"], vec![f("tag", ATy::named("String"))]),
            obj("Gadget", vec![], vec![f("serial", ATy::named("Int"))]),
            AType::Union { name: "Thing".into(), members: vec!["Item".into(), "Gadget".into()] },
            obj("Query", vec![], vec![f("named", ATy::named("Named")), f("tagged", ATy::named("Tagged")), f("thing", ATy::named("Thing")), f("person", ATy::named("Person"))]),
        ],
        query: Some("Query".into()),
        mutation: None,
        subscription: None,
    };
    let doc = ADoc {
        ops: vec![AOp {
            kind: "query",
            name: "Fixed".into(),
            vars: vec![],
            sels: vec![
                fld("named", vec![ASel::Typename, fld("name", vec![]), ASel::Inline { on: "Person".into(), sub: vec![fld("friend", vec![ASel::Typename, fld("name", vec![])])] }, ASel::Spread { name: "OnNamed".into() }]),
                fld("tagged", vec![ASel::Typename, fld("tag", vec![])]),
                fld("thing", vec![ASel::Typename, ASel::Inline { on: "Item".into(), sub: vec![fld("tag", vec![])] }]),
                fld("person", vec![fld("name", vec![])]),
            ],
        }],
        frags: vec![AFrag { name: "OnNamed".into(), on: "Named".into(), sels: vec![ASel::Typename, fld("name", vec![])] }],
    };
    vec![(schema, doc)]
}

pub fn run(a: &Args) -> i32 {
    let mut rep = Report::new(
        "C06",
        a,
        "random valid (schema, document) pairs (type-directed generator: objects, interfaces, unions, fragments incl. nested/recursive, inline fragments, aliases) x 23 invalidating edits (rule catalogue of the property) x every applicable selection-set position (operation / fragment, object / interface / union parent, nesting depth, under inline fragments); a case = one edited document run through generate_module_token_stream_from_string; non-trivial = the edit was applied below the root selection set or inside a fragment; distinct by (schema, edited document text)",
    );
    let mut rng = Rng::new(a.seed);
    let mut ctx = CaseCtx::new();
    let n_docs = if rep.thorough() { 1500 } else { 70 };
    let per_edit_positions = if rep.thorough() { usize::MAX } else { 3 };
    let opts = Opts::harness();
    let mut fixed = fixed_pairs().into_iter();
    for _ in 0..n_docs + fixed_pairs().len() {
        let mut is_fixed = true;
        let (schema, doc) = match fixed.next() {
            Some(x) => x,
            None => {
                is_fixed = false;
                let schema = random_schema(&mut rng, &SchemaKnobs::default());
                let doc = random_doc(&mut rng, &schema, &OpKnobs::default());
                (schema, doc)
            }
        };
        let sdl = schema.to_sdl(&RenderKnobs::default());
        let qtext = doc.render();
        // baseline
        let (_, real) = ctx.run_real(&sdl, false, &qtext, &opts);
        let mv = ask_model(&mut ctx, &sdl, &qtext);
        if real.kind() != "ok" {
            rep.count("baseline_rejected_by_implementation");
            continue;
        }
        if let Some(mv) = &mv {
            if !mv.valid_strict {
                rep.internal.push(format!("generator produced a document the Lean specification calls invalid:\n{}\n{}", sdl, qtext));
                continue;
            }
            if mv.resolve != "ok" {
                rep.disagree(json!({"what": "baseline", "implementation": "ok", "model_resolve": mv.resolve, "schema": sdl, "query": qtext}));
            }
        }
        rep.count("baseline_valid");
        let poss = positions(&schema, &doc);
        for edit in ALL_EDITS.iter() {
            let targets: Vec<(Option<&Pos>, usize)> = if edit.per_position() {
                let mut idx: Vec<usize> = (0..poss.len()).collect();
                rng.shuffle(&mut idx);
                idx.into_iter().map(|i| (Some(&poss[i]), 0usize)).collect()
            } else {
                (0..doc.ops.len()).map(|i| (None, i)).collect()
            };
            let mut applied = 0;
            for (pos, op_idx) in targets {
                if !is_fixed && applied >= per_edit_positions {
                    break;
                }
                let pick = rng.below(1000);
                let (s2, d2, desc) = match apply(&schema, &doc, *edit, pos, op_idx, pick) {
                    Some(x) => x,
                    None => continue,
                };
                applied += 1;
                let sdl2 = s2.to_sdl(&RenderKnobs::default());
                let q2 = d2.render();
                let (_, real) = ctx.run_real(&sdl2, false, &q2, &opts);
                let mv = ask_model(&mut ctx, &sdl2, &q2);
                let nontrivial = pos.map(|p| !p.path.is_empty() || p.container.is_err()).unwrap_or(false);
                let key = format!("{}\n{}", sdl2, q2);
                rep.case(if nontrivial { Some(&key) } else { None });
                rep.count(&format!("edit:{}", edit.name()));
                if let Some(p) = pos {
                    rep.count(&format!("position:{}", p.kind_tag(&schema)));
                }
                rep.count(&format!("outcome:{}", real.kind()));
                if rep.samples.len() < 4 && nontrivial {
                    rep.sample(json!({"edit": edit.name(), "description": desc, "query": q2, "implementation": real.kind()}));
                }
                let case = json!({"edit": edit.name(), "description": desc, "schema": sdl2, "query": q2,
                                  "implementation": real.kind(), "original_query": qtext});
                // (two operations of one name are not among the invalidities the statement lists - the repaired code rejects
                // them, the model follows it, and a difference is reported below as a broken tie, not as a violation)
                if real.kind() == "ok" && *edit != Edit::DuplicateOperationName {
                    rep.fail(edit.name(), case.clone());
                }
                if let Some(mv) = mv {
                    if mv.valid_strict {
                        rep.internal.push(format!("edit `{}` is not invalidating according to the Lean specification: {}\n{}", edit.name(), desc, q2));
                    }
                    if mv.resolve != real.kind() {
                        rep.disagree(json!({"what": "edited", "implementation": real.kind(), "model_resolve": mv.resolve, "case": case}));
                    } else {
                        rep.traces_validated += 1;
                    }
                    // the lenient specification differs from the strict one only for the no-selection rule
                    if mv.valid_lenient && *edit != Edit::NoSelectionOnComposite {
                        rep.internal.push(format!("lenient specification accepts an edit other than no-selection: {} / {}", edit.name(), desc));
                    }
                }
            }
        }
    }
    // an operation is judged against the schema FILE the path denotes (one process, several schema paths, `..` after a symlink)
    super::wire::path_entry_sequence(&mut rep, &ctx);
    rep.extra.insert("model_requests".into(), json!(ctx.model.requests));
    rep.finish()
}
