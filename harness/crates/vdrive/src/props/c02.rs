//! C02 — supported inputs are accepted and the generated code always type-checks.
//!
//! Implementation side: every generated (schema, document, options) case of the supported subset must
//! be accepted by the generator and the emitted code must compile with the real rustc in a consumer
//! crate that supplies only what the documentation asks for — in all delivery forms:
//!   L  library token stream pasted into a module,
//!   C  the file written by `graphql-client generate`, used as a module file,
//!   D  `#[derive(GraphQLQuery)]` in a crate with serde,
//!   N  `#[derive(GraphQLQuery)]` in a crate whose only dependency is graphql_client.
//! Model side: the Lean scope discipline (`Scope.report`, characterised by `C02.wellScoped_iff`) is
//! evaluated on the IR extracted from the implementation's tokens and must agree with rustc; the
//! model's own IR (`Codegen.generate`) must equal the extracted IR (tie of the C02 closure theorems).
use super::wire::custom_scalars;
use heck::ToUpperCamelCase;
use serde_json::{json, Value};
use std::collections::BTreeMap;
use std::process::Command;
use vcore::caserun::*;
use vcore::common::*;
use vcore::consumer::*;
use vcore::gen::op::*;
use vcore::gen::rng::Rng;
use vcore::gen::schema::*;
use vcore::report::*;
use vcore::sexp::*;

const FORMS: [&str; 4] = ["library", "cli-file", "derive", "derive-serdeless"];

struct Case {
    idx: usize,
    schema: ASchema,
    doc: ADoc,
    sdl: String,
    qtext: String,
    opts: Opts,
    /// which delivery forms this case is compiled in
    forms: Vec<usize>,
    sc_module: bool,
    recursive_fragment: bool,
    /// corpus cases: the known-finding class this witness belongs to (computed from the input for generated cases)
    corpus_class: Option<&'static str>,
}

fn code_id(case: usize, form: usize) -> usize {
    case * 4 + form
}

fn enum_names(s: &ASchema) -> Vec<(String, Vec<String>)> {
    s.types.iter().filter_map(|t| if let AType::Enum { name, values } = t { Some((name.clone(), values.clone())) } else { None }).collect()
}

/// what the documentation asks the consumer to supply: a type per custom scalar (in the parent
/// module, or in the custom-scalars module), and the externally defined enums
fn prelude(s: &ASchema, opts: &Opts, with_serde: bool) -> String {
    let mut p = String::new();
    let mut scalars = String::new();
    for sc in custom_scalars(s) {
        let ident = if opts.normalization_rust { sc.to_upper_camel_case() } else { sc.clone() };
        scalars.push_str(&format!("    pub type {} = String;\n", ident));
    }
    if opts.scalars_module.is_some() {
        p.push_str(&format!("    pub mod sc {{\n{}    }}\n", scalars));
    } else {
        p.push_str(&scalars);
    }
    for e in &opts.extern_enums {
        let ident = if opts.normalization_rust { e.to_upper_camel_case() } else { e.clone() };
        let derives = if with_serde { "#[derive(serde::Serialize, serde::Deserialize, Debug, Clone, PartialEq)]" } else { "#[derive(Debug, Clone, PartialEq)]" };
        p.push_str(&format!("    {}\n    pub enum {} {{ A, B }}\n", derives, ident));
    }
    p
}

/// names the consumer supplies, as the scope check sees them in the IR
fn supplied(s: &ASchema, opts: &Opts) -> Vec<String> {
    let mut v = Vec::new();
    for sc in custom_scalars(s) {
        let ident = if opts.normalization_rust { sc.to_upper_camel_case() } else { sc.clone() };
        v.push(format!("{}::{}", opts.scalars_module.as_deref().unwrap_or("super"), ident));
    }
    for e in &opts.extern_enums {
        v.push(if opts.normalization_rust { e.to_upper_camel_case() } else { e.clone() });
    }
    v
}

fn derive_attr(c: &Case, id: usize, opts: &Opts, struct_name: &str) -> String {
    let mut parts = vec![format!("schema_path = \"gql/case_{}_schema.graphql\"", id), format!("query_path = \"gql/case_{}_query.graphql\"", id)];
    if let Some(d) = &opts.response_derives {
        parts.push(format!("response_derives = {:?}", d));
    }
    if let Some(d) = &opts.variables_derives {
        parts.push(format!("variables_derives = {:?}", d));
    }
    if opts.normalization_rust {
        parts.push("normalization = \"rust\"".into());
    }
    parts.push(format!("deprecated = {:?}", opts.deprecation));
    if let Some(m) = &opts.scalars_module {
        parts.push(format!("custom_scalars_module = {:?}", m));
    }
    if !opts.extern_enums.is_empty() {
        parts.push(format!("extern_enums({})", opts.extern_enums.iter().map(|e| format!("{:?}", e)).collect::<Vec<_>>().join(", ")));
    }
    if opts.other_variant {
        parts.push("fragments_other_variant = \"true\"".into());
    }
    if opts.skip_none {
        parts.push("skip_serializing_none".into());
    }
    let _ = c;
    format!("    #[derive(graphql_client::GraphQLQuery)]\n    #[graphql({})]\n    pub struct {};\n", parts.join(", "), struct_name)
}

fn cli_binary() -> std::path::PathBuf {
    let target = std::env::var("CARGO_TARGET_DIR").unwrap_or_else(|_| "/verif/.work/target".into());
    std::path::PathBuf::from(target).join("debug").join("graphql-client")
}

/// `graphql-client generate` with the flags that correspond to `opts`; returns the written file's text
fn cli_generate(work: &std::path::Path, id: usize, sdl: &str, qtext: &str, opts: &Opts) -> Result<String, String> {
    let dir = work.join(format!("cli_{}", id));
    let _ = std::fs::remove_dir_all(&dir);
    std::fs::create_dir_all(dir.join("out")).map_err(|e| e.to_string())?;
    std::fs::write(dir.join("schema.graphql"), sdl).map_err(|e| e.to_string())?;
    std::fs::write(dir.join("ops.graphql"), qtext).map_err(|e| e.to_string())?;
    let mut args: Vec<String> = vec!["generate".into(), "--schema-path".into(), "schema.graphql".into(), "--output-directory".into(), "out".into(), "--no-formatting".into()];
    if let Some(d) = &opts.response_derives {
        args.push("--response-derives".into());
        args.push(d.clone());
    }
    if let Some(d) = &opts.variables_derives {
        args.push("--variables-derives".into());
        args.push(d.clone());
    }
    args.push("--deprecation-strategy".into());
    args.push(opts.deprecation.into());
    if let Some(m) = &opts.scalars_module {
        args.push("--custom-scalars-module".into());
        args.push(m.clone());
    }
    if opts.other_variant {
        args.push("--fragments-other-variant".into());
    }
    args.push("ops.graphql".into());
    let out = Command::new(cli_binary()).args(&args).current_dir(&dir).output().map_err(|e| format!("cannot run the CLI: {}", e))?;
    if !out.status.success() {
        return Err(format!("exit {:?}: {}", out.status.code(), String::from_utf8_lossy(&out.stderr).chars().take(300).collect::<String>()));
    }
    let text = std::fs::read_to_string(dir.join("out/ops.rs")).map_err(|e| format!("no output file: {}", e));
    let _ = std::fs::remove_dir_all(&dir);
    text
}

fn c02_opts(rng: &mut Rng, s: &ASchema) -> Opts {
    let mut o = Opts::default();
    o.other_variant = rng.chance(35);
    o.skip_none = rng.chance(35);
    o.deprecation = *rng.pick(&["warn", "allow", "deny"]);
    o.response_derives = match rng.below(4) {
        0 => None,
        1 => Some("Debug".into()),
        2 => Some("Serialize,Debug,PartialEq".into()),
        _ => Some("Debug, Clone,PartialEq".into()),
    };
    o.variables_derives = match rng.below(4) {
        0 => None,
        1 => Some("Debug".into()),
        2 => Some("Deserialize,Debug,PartialEq".into()),
        _ => Some("Debug,Clone, PartialEq".into()),
    };
    let collide = s.types.iter().any(|t| matches!(t, AType::Enum { values, .. } if values.iter().any(|v| v == "self") && values.iter().any(|v| v == "Self")));
    o.normalization_rust = !collide && rng.chance(30);
    o
}

/// response keys / variable names / input field names of one scope that collide after snake-casing
fn snake_collision(names: &[String]) -> bool {
    use heck::ToSnakeCase;
    for (i, a) in names.iter().enumerate() {
        for b in &names[i + 1..] {
            if a != b && a.to_snake_case() == b.to_snake_case() {
                return true;
            }
        }
    }
    false
}

fn sels_have(sels: &[ASel], frags: &[AFrag], pred: &dyn Fn(&[ASel]) -> bool) -> bool {
    if pred(sels) {
        return true;
    }
    let _ = frags;
    sels.iter().any(|s| match s {
        ASel::Field { sub, .. } | ASel::Inline { sub, .. } => sels_have(sub, frags, pred),
        _ => false,
    })
}

fn keys_of_set(sels: &[ASel]) -> Vec<String> {
    sels.iter().filter_map(|s| if let ASel::Field { alias, name, .. } = s { Some(alias.clone().unwrap_or_else(|| name.clone())) } else { None }).collect()
}

/// names of the structs the generator derives from selection paths (prefix + CamelCase(key)); a
/// collision = two different paths giving one name
fn path_names(prefix: &str, sels: &[ASel], out: &mut Vec<String>) {
    for s in sels {
        match s {
            ASel::Field { alias, name, sub } if !sub.is_empty() => {
                let n = format!("{}{}", prefix, alias.as_ref().unwrap_or(name).to_upper_camel_case());
                out.push(n.clone());
                path_names(&n, sub, out);
            }
            ASel::Inline { on, sub } => {
                let n = format!("{}On{}", prefix, on);
                out.push(n.clone());
                path_names(&n, sub, out);
            }
            _ => {}
        }
    }
}

/// known-finding classes of C02, computed from the input alone (never from the failure)
/// the open C02 finding (if any) that explains why the code generated for this input does not compile — computed from
/// the INPUT and the error codes, never from the fact of failing alone; used by the other wire-level checks to excuse a
/// case of theirs that does not compile for a reason recorded under C02
pub fn known_compile_class(schema: &ASchema, doc: &ADoc, opts: &Opts, codes: &[String]) -> Option<&'static str> {
    let c = Case { idx: 0, schema: schema.clone(), doc: doc.clone(), sdl: String::new(), qtext: String::new(), opts: opts.clone(), forms: vec![], sc_module: false,
        recursive_fragment: doc.has_recursive_fragment(), corpus_class: None };
    finding_class(&c, codes)
}

fn finding_class(c: &Case, codes: &[String]) -> Option<&'static str> {
    let has = |code: &str| codes.iter().any(|e| e.starts_with(code));
    if c.recursive_fragment && has("E0275") && c.opts.response_derives.as_deref().map(|d| d.contains("Serialize")).unwrap_or(false) {
        // serde cannot instantiate `Serialize` for a type containing itself through #[serde(flatten)]
        return Some("serialize-derive-on-recursive-fragment");
    }
    let all_sets = |pred: &dyn Fn(&[ASel]) -> bool| c.doc.ops.iter().any(|o| sels_have(&o.sels, &c.doc.frags, pred)) || c.doc.frags.iter().any(|f| sels_have(&f.sels, &c.doc.frags, pred));
    let vars_collide = c.doc.ops.iter().any(|o| snake_collision(&o.vars.iter().map(|v| v.name.clone()).collect::<Vec<_>>()));
    let inputs_collide = c.schema.types.iter().any(|t| matches!(t, AType::Input { fields, .. } if snake_collision(&fields.iter().map(|f| f.0.clone()).collect::<Vec<_>>())));
    if has("E0124") && (vars_collide || inputs_collide || all_sets(&|set| snake_collision(&keys_of_set(set)))) {
        return Some("sibling-names-equal-after-snake-casing");
    }
    if has("E0124") && all_sets(&|set| keys_of_set(set).iter().any(|k| k == "on") && set.iter().any(|s| matches!(s, ASel::Inline { .. } | ASel::Spread { .. }))) {
        return Some("field-named-on-next-to-variant-selection");
    }
    if has("E0428") {
        // the generated enum declares one identifier twice: two schema values with the same identifier after
        // normalization (`self` / `Self`, `red` / `RED` under rust)
        use heck::ToUpperCamelCase;
        let ident = |v: &str| if c.opts.normalization_rust { v.to_upper_camel_case() } else { v.to_string() };
        for t in &c.schema.types {
            if let AType::Enum { name, values } = t {
                if c.opts.extern_enums.contains(name) {
                    continue;
                }
                // (a value whose identifier would be `Other`, the catch-all variant, is escaped since fix 3ecb529)
                let mut ids: Vec<String> = values.iter().map(|v| ident(v)).collect();
                let n = ids.len();
                ids.sort();
                ids.dedup();
                if ids.len() != n {
                    return Some("enum-values-equal-after-normalization");
                }
            }
        }
    }
    // a fragment (or operation) named like a type the generated code itself mentions unqualified: `struct String { name: String }`
    const USED_UNQUALIFIED: [&str; 8] = ["String", "Vec", "Option", "Box", "Boolean", "Float", "Int", "ID"];
    if (has("E0072") || has("E0391") || has("E0428") || has("E0308") || has("E0107")) && c.doc.frags.iter().any(|f| USED_UNQUALIFIED.contains(&f.name.as_str())) {
        return Some("fragment-named-like-a-type-the-generated-code-uses");
    }
    // two inline fragments on ONE possible type at one position that share a response key: the variant struct declares the member twice
    if has("E0124") && all_sets(&|set| {
        let inl: Vec<(&String, Vec<String>)> = set.iter().filter_map(|s| if let ASel::Inline { on, sub } = s { Some((on, keys_of_set(sub))) } else { None }).collect();
        inl.iter().enumerate().any(|(i, (on, ks))| inl.iter().skip(i + 1).any(|(on2, ks2)| on == on2 && ks.iter().any(|k| ks2.contains(k))))
    }) {
        return Some("two-inline-fragments-on-one-type-share-a-key");
    }
    // a field whose Rust name equals the member the generator names after a fragment spread in the same selection set
    // (`f ...f`: `pub f` and `#[serde(flatten)] pub f`)
    if has("E0124") && all_sets(&|set| {
        use heck::ToSnakeCase;
        let keys: Vec<String> = keys_of_set(set).iter().map(|k| k.to_snake_case()).collect();
        set.iter().any(|s| matches!(s, ASel::Spread { name } if keys.contains(&name.to_snake_case())))
    }) {
        return Some("field-named-like-a-spread-fragments-member");
    }
    // `fragments_other_variant` adds the variant `Unknown` to every generated interface / union enum: a possible type called
    // `Unknown` is declared twice
    if has("E0428") && c.opts.other_variant && c.schema.types.iter().any(|t| matches!(t, AType::Object { name, .. } if name == "Unknown")) {
        return Some("possible-type-named-unknown-with-the-other-variant");
    }
    {
        // schema types whose Rust identifier is one of the two names every module defines itself, or two schema types
        // whose identifiers coincide under normalization rust
        use heck::ToUpperCamelCase;
        let ident = |n: &str| if c.opts.normalization_rust { n.to_upper_camel_case() } else { n.to_string() };
        let names: Vec<String> = c.schema.types.iter().filter_map(|t| match t {
            AType::Enum { name, .. } | AType::Input { name, .. } | AType::Scalar { name } => Some(ident(name)),
            _ => None,
        }).collect();
        if (has("E0428") || has("E0072")) && names.iter().any(|n| n == "ResponseData" || n == "Variables") {
            return Some("schema-type-named-like-a-generated-item");
        }
        let mut sorted = names.clone();
        sorted.sort();
        sorted.dedup();
        if has("E0428") && c.opts.normalization_rust && sorted.len() != names.len() {
            return Some("schema-type-names-equal-after-normalization");
        }
    }
    if has("E0428") && !c.opts.normalization_rust && c.doc.ops.iter().any(|o| { use heck::ToSnakeCase; o.name.to_snake_case() == o.name }) {
        // `struct list_items;` next to `mod list_items`: both live in the type namespace
        return Some("operation-name-equals-its-module-name");
    }
    if has("E0428") {
        let mut names = Vec::new();
        for o in &c.doc.ops {
            path_names(&o.name, &o.sels, &mut names);
        }
        for f in &c.doc.frags {
            names.push(f.name.clone());
            path_names(&f.name, &f.sels, &mut names);
        }
        let mut sorted = names.clone();
        sorted.sort();
        sorted.dedup();
        if sorted.len() != names.len() {
            return Some("selection-paths-concatenate-to-one-type-name");
        }
    }
    c.corpus_class.filter(|_| false)
}

/// fixed witnesses of the open known findings of C02 (valid inputs whose generated code does not compile)
fn corpus() -> Vec<(ASchema, ADoc, Opts, &'static str)> {
    let f = |n: &str, t: ATy| AField { name: n.into(), ty: t, dep: None };
    let obj = |name: &str, implements: Vec<&str>, fields: Vec<AField>| AType::Object { name: name.into(), implements: implements.into_iter().map(String::from).collect(), fields, ext_fields: vec![] };
    let fld = |n: &str, sub: Vec<ASel>| ASel::Field { alias: None, name: n.into(), sub };
    let schema = ASchema {
        types: vec![
            AType::Interface { name: "Animal".into(), fields: vec![f("name", ATy::named("String")), f("on", ATy::named("Boolean"))] },
            obj("Dog", vec!["Animal"], vec![f("name", ATy::named("String")), f("on", ATy::named("Boolean")), f("fooBar", ATy::named("Int")), f("foo_bar", ATy::named("Int")), f("friend", ATy::named("Dog"))]),
            obj("Query", vec![], vec![f("animal", ATy::named("Animal")), f("dog", ATy::named("Dog")), f("a", ATy::named("Dog")), f("aB", ATy::named("Dog")), f("echo", ATy::named("Int"))]),
        ],
        query: Some("Query".into()),
        mutation: None,
        subscription: None,
    };
    let doc = |vars: Vec<AVar>, sels: Vec<ASel>, frags: Vec<AFrag>| ADoc { ops: vec![AOp { kind: "query", name: "W".into(), vars, sels }], frags };
    let var = |n: &str| AVar { name: n.into(), ty: ATy::named("Int"), default: None };
    // fixed cases that MUST compile (class ""): option interactions a random draw may miss
    let enum_schema = ASchema {
        types: vec![
            AType::Enum { name: "Unit".into(), values: vec!["METER".into(), "foot".into(), "type".into()] },
            AType::Scalar { name: "Date".into() },
            AType::Input { name: "Filter".into(), one_of: false, fields: vec![("unit".into(), ATy::named("Unit")), ("since".into(), ATy::named("Date")), ("nested".into(), ATy::named("Filter")), ("anyOf".into(), ATy::List(Box::new(ATy::NonNull(Box::new(ATy::named("Filter"))))))] },
            obj("Query", vec![], vec![f("unit", ATy::named("Unit")), f("units", ATy::List(Box::new(ATy::NonNull(Box::new(ATy::named("Unit")))))), f("when", ATy::named("Date"))]),
        ],
        query: Some("Query".into()),
        mutation: None,
        subscription: None,
    };
    let enum_doc = ADoc {
        ops: vec![AOp { kind: "query", name: "Units".into(), vars: vec![AVar { name: "f".into(), ty: ATy::named("Filter"), default: None }, AVar { name: "u".into(), ty: ATy::NonNull(Box::new(ATy::named("Unit"))), default: None }],
            sels: vec![fld("unit", vec![]), fld("units", vec![]), fld("when", vec![])] }],
        frags: vec![],
    };
    // default values of variables: every literal kind
    let dflt_doc = |vars: Vec<(&str, ATy, &str)>| ADoc {
        ops: vec![AOp { kind: "query", name: "Defaults".into(), vars: vars.into_iter().map(|(n, t, d)| AVar { name: n.into(), ty: t, default: Some(d.into()) }).collect(), sels: vec![fld("unit", vec![])] }],
        frags: vec![],
    };
    let collide_schema = |values: Vec<&str>| ASchema {
        types: vec![
            AType::Enum { name: "Colour".into(), values: values.into_iter().map(String::from).collect() },
            obj("Query", vec![], vec![f("colour", ATy::named("Colour"))]),
        ],
        query: Some("Query".into()),
        mutation: None,
        subscription: None,
    };
    let enum_doc_c = ADoc { ops: vec![AOp { kind: "query", name: "Colours".into(), vars: vec![], sels: vec![fld("colour", vec![])] }], frags: vec![] };
    let both = |r: &str, v: &str, rust: bool| Opts { response_derives: Some(r.into()), variables_derives: Some(v.into()), normalization_rust: rust, ..Opts::default() };
    // every fragment-recursion pattern of C12 must compile too (Box on every by-value cycle)
    let mut fixed: Vec<(ASchema, ADoc, Opts, &'static str)> = super::c12::fragment_cases().into_iter().map(|g| (g.schema, g.doc, Opts::default(), "")).collect();
    fixed.extend(vec![
        (enum_schema.clone(), dflt_doc(vec![("i", ATy::named("Int"), "42"), ("s", ATy::named("String"), "\"he said \\\"hi\\\"\""), ("b", ATy::named("Boolean"), "false"), ("f", ATy::named("Float"), "1.5"), ("id", ATy::named("ID"), "\"abc\"")]), Opts::default(), ""),
        (enum_schema.clone(), dflt_doc(vec![("u", ATy::named("Unit"), "METER")]), Opts::default(), ""),
        (enum_schema.clone(), dflt_doc(vec![("l", ATy::List(Box::new(ATy::NonNull(Box::new(ATy::named("Int"))))), "[1, 2]")]), Opts::default(), ""),
        (enum_schema.clone(), dflt_doc(vec![("l", ATy::List(Box::new(ATy::named("Int"))), "[1, 2]")]), Opts::default(), ""),
        (enum_schema.clone(), dflt_doc(vec![("f", ATy::named("Float"), "1")]), Opts::default(), ""),
        (enum_schema.clone(), dflt_doc(vec![("o", ATy::named("Filter"), "{ since: \"2020\" }")]), Opts::default(), ""),
        (enum_schema.clone(), dflt_doc(vec![("o", ATy::named("Filter"), "{ nested: { since: \"x\" } }")]), Opts::default(), ""),
        (enum_schema.clone(), dflt_doc(vec![("o", ATy::named("Filter"), "{ anyOf: [{ since: \"x\" }, { nested: { anyOf: [] } }], unit: METER }")]), Opts::default(), ""),
        (enum_schema.clone(), enum_doc.clone(), both("Debug, Clone", "Debug, Clone", false), ""),
        (enum_schema.clone(), enum_doc.clone(), both("Debug,PartialEq,Clone", "Clone,Debug", true), ""),
        (enum_schema.clone(), enum_doc.clone(), both("Serialize,Debug", "Deserialize,Debug", false), ""),
        (schema.clone(), doc(vec![var("fooBar"), var("foo_bar")], vec![fld("echo", vec![])], vec![]), Opts::default(), "sibling-names-equal-after-snake-casing"),
        (schema.clone(), doc(vec![], vec![fld("dog", vec![fld("fooBar", vec![]), fld("foo_bar", vec![])])], vec![]), Opts::default(), "sibling-names-equal-after-snake-casing"),
        (schema.clone(), doc(vec![], vec![fld("a", vec![fld("friend", vec![fld("name", vec![])])]), fld("aB", vec![fld("name", vec![])]), ASel::Field { alias: Some("aFriend".into()), name: "dog".into(), sub: vec![fld("name", vec![])] }], vec![]), Opts::default(), "selection-paths-concatenate-to-one-type-name"),
        (schema.clone(), doc(vec![], vec![fld("animal", vec![ASel::Typename, fld("on", vec![]), ASel::Inline { on: "Dog".into(), sub: vec![fld("name", vec![])] }])], vec![]), Opts::default(), "field-named-on-next-to-variant-selection"),
        (schema.clone(), ADoc { ops: vec![AOp { kind: "query", name: "list_items".into(), vars: vec![], sels: vec![fld("echo", vec![])] }], frags: vec![] }, Opts::default(), "operation-name-equals-its-module-name"),
        (schema.clone(), doc(vec![], vec![fld("dog", vec![fld("fooBar", vec![]), ASel::Spread { name: "String".into() }])], vec![AFrag { name: "String".into(), on: "Dog".into(), sels: vec![fld("name", vec![])] }]), Opts::default(), "fragment-named-like-a-type-the-generated-code-uses"),
        (schema.clone(), doc(vec![], vec![fld("animal", vec![ASel::Typename, ASel::Inline { on: "Dog".into(), sub: vec![fld("name", vec![])] }, ASel::Inline { on: "Dog".into(), sub: vec![fld("name", vec![]), fld("fooBar", vec![])] }])], vec![]), Opts::default(), "two-inline-fragments-on-one-type-share-a-key"),
        (schema.clone(), doc(vec![], vec![fld("animal", vec![ASel::Typename, ASel::Inline { on: "Dog".into(), sub: vec![fld("name", vec![])] }, ASel::Inline { on: "Dog".into(), sub: vec![fld("fooBar", vec![])] }])], vec![]), Opts::default(), ""),
        (schema.clone(), doc(vec![], vec![fld("echo", vec![]), ASel::Spread { name: "echo".into() }], vec![AFrag { name: "echo".into(), on: "Query".into(), sels: vec![fld("dog", vec![fld("name", vec![])])] }]), Opts::default(), "field-named-like-a-spread-fragments-member"),
        (ASchema { types: vec![
                AType::Interface { name: "Animal".into(), fields: vec![f("name", ATy::named("String"))] },
                obj("Dog", vec!["Animal"], vec![f("name", ATy::named("String"))]),
                obj("Unknown", vec!["Animal"], vec![f("name", ATy::named("String"))]),
                obj("Query", vec![], vec![f("animal", ATy::named("Animal"))]),
            ], query: Some("Query".into()), mutation: None, subscription: None },
            doc(vec![], vec![fld("animal", vec![ASel::Typename, fld("name", vec![])])], vec![]), Opts { other_variant: true, ..Opts::default() }, "possible-type-named-unknown-with-the-other-variant"),
        (ASchema { types: vec![
                AType::Input { name: "Variables".into(), one_of: false, fields: vec![("a".into(), ATy::named("Int"))] },
                obj("Query", vec![], vec![f("echo", ATy::named("Int"))]),
            ], query: Some("Query".into()), mutation: None, subscription: None },
            doc(vec![AVar { name: "v".into(), ty: ATy::named("Variables"), default: None }], vec![fld("echo", vec![])], vec![]), Opts::default(), "schema-type-named-like-a-generated-item"),
        (ASchema { types: vec![
                AType::Enum { name: "response_data".into(), values: vec!["A".into(), "B".into()] },
                obj("Query", vec![], vec![f("kind", ATy::named("response_data"))]),
            ], query: Some("Query".into()), mutation: None, subscription: None },
            doc(vec![], vec![fld("kind", vec![])], vec![]), both("Debug", "Debug", true), "schema-type-named-like-a-generated-item"),
        (ASchema { types: vec![
                AType::Enum { name: "sort_order".into(), values: vec!["A".into()] },
                AType::Enum { name: "SortOrder".into(), values: vec!["B".into()] },
                obj("Query", vec![], vec![f("a", ATy::named("sort_order")), f("b", ATy::named("SortOrder"))]),
            ], query: Some("Query".into()), mutation: None, subscription: None },
            doc(vec![], vec![fld("a", vec![]), fld("b", vec![])], vec![]), both("Debug", "Debug", true), "schema-type-names-equal-after-normalization"),
        // three fragments on one interface, none selecting `__typename` itself, all spreading ONE base fragment that does
        (schema.clone(), ADoc { ops: vec![AOp { kind: "query", name: "W".into(), vars: vec![], sels: vec![fld("animal", vec![ASel::Spread { name: "F1".into() }, ASel::Spread { name: "F2".into() }, ASel::Spread { name: "F3".into() }])] }],
            frags: vec![
                AFrag { name: "Base".into(), on: "Animal".into(), sels: vec![ASel::Typename] },
                AFrag { name: "F1".into(), on: "Animal".into(), sels: vec![ASel::Spread { name: "Base".into() }] },
                AFrag { name: "F2".into(), on: "Animal".into(), sels: vec![fld("name", vec![]), ASel::Spread { name: "Base".into() }] },
                AFrag { name: "F3".into(), on: "Animal".into(), sels: vec![ASel::Spread { name: "Base".into() }, ASel::Inline { on: "Dog".into(), sub: vec![fld("fooBar", vec![])] }] },
            ] }, Opts::default(), ""),
        (collide_schema(vec!["self", "Self", "blue"]), enum_doc_c.clone(), both("Debug", "Debug", true), "enum-values-equal-after-normalization"),
        (collide_schema(vec!["self", "Self", "blue"]), enum_doc_c.clone(), both("Debug", "Debug", false), ""),
        (collide_schema(vec!["Other", "blue"]), enum_doc_c.clone(), both("Debug", "Debug", false), ""),
        (collide_schema(vec!["OTHER", "blue"]), enum_doc_c.clone(), both("Debug", "Debug", true), ""),
        (collide_schema(vec!["OTHER", "other", "blue"]), enum_doc_c.clone(), both("Debug", "Debug", false), ""),
    ]);
    fixed
}

pub fn run(a: &Args) -> i32 {
    let rule = "random (schema, document, options) cases of the supported subset (valid schema, valid named operations, derive lists from {Debug, Clone, PartialEq, Serialize, Deserialize}, custom scalars supplied as type aliases in the parent module or in the custom-scalars module, a random subset of the enums declared external and supplied by the consumer, normalization none / rust, every deprecation strategy); a case = one (input, delivery form) pair compiled by rustc: L library token stream, C file written by the built CLI, D derive macro in a crate with serde, N derive macro in a crate whose only dependency is graphql_client; oracle: generation succeeds and the module compiles; tie: the Lean scope discipline on the extracted IR agrees with rustc, and the model's generated IR equals the extracted IR; non-trivial = the operation mentions at least one generated item besides ResponseData / Variables (nested selection, fragment, enum, input object or custom scalar); distinct by (schema, document, options, form)";
    let mut rep = Report::new("C02", a, rule);
    let mut rng = Rng::new(a.seed);
    let n_cases = if rep.thorough() { 220 } else { 44 };
    let forms_every = if rep.thorough() { 2 } else { 3 }; // every k-th case is compiled in all four forms
    let mut ctx = CaseCtx::new();
    let sk = SchemaKnobs::default();
    let ok = OpKnobs { shared_typename_base: true, ..OpKnobs::default() };
    let mut cases: Vec<Case> = Vec::new();
    let mut serde_codes: Vec<CaseCode> = Vec::new();
    let mut plain_codes: Vec<CaseCode> = Vec::new();
    let mut serde_files: Vec<(String, String)> = Vec::new();
    let mut plain_files: Vec<(String, String)> = Vec::new();
    let mut modules_of: BTreeMap<usize, Vec<vcore::extract::ExtractedModule>> = BTreeMap::new();
    let mut attempts = 0;
    let mut corpus_iter = corpus().into_iter();
    let n_cases = n_cases + corpus().len();
    while cases.len() < n_cases && attempts < n_cases * 3 {
        attempts += 1;
        let from_corpus = corpus_iter.next();
        let is_corpus = from_corpus.is_some();
        let (schema, doc, mut opts, corpus_class) = match from_corpus {
            Some((s, d, o, c)) => (s, d, o, if c.is_empty() { None } else { Some(c) }),
            None => {
                let schema = random_schema(&mut rng, &sk);
                let doc = random_doc(&mut rng, &schema, &ok);
                let opts = c02_opts(&mut rng, &schema);
                (schema, doc, opts, None)
            }
        };
        let idx = cases.len();
        if doc.frags.iter().any(|f| f.name.ends_with("TypenameBase")) {
            rep.count("document:typename-through-a-shared-base-fragment");
        }
        let enums = enum_names(&schema);
        for (name, _) in &enums {
            if !is_corpus && rng.chance(20) {
                opts.extern_enums.push(name.clone());
            }
        }
        // (an enum whose value is a variable's default stays generated: the consumer's stand-in enum of this harness
        // does not have the schema's variants)
        opts.extern_enums.retain(|e| !doc.ops.iter().any(|o| o.vars.iter().any(|v| v.default.is_some() && v.ty.base() == e)));
        let use_sc_module = !is_corpus && rng.chance(40);
        // some schema printers re-declare the built-in scalars (`scalar ID` …): still a supported input
        let sdl = schema.to_sdl(&RenderKnobs { sdl_builtin_scalars: rng.chance(30), use_extend: rng.chance(40), extend_implements: rng.chance(50), extensions_first: rng.chance(50), ..RenderKnobs::default() });
        let qtext = doc.render();
        let all_forms = !is_corpus && idx % forms_every == 0;
        let mut c = Case { idx, schema, doc, sdl, qtext, opts, forms: vec![0], sc_module: use_sc_module, recursive_fragment: false, corpus_class };
        c.recursive_fragment = c.doc.has_recursive_fragment();
        if c.recursive_fragment {
            // `Serialize` on a recursive flattened fragment is a known limitation of serde (E0275);
            // keep a few such cases to exercise the finding, drop `Serialize` from the others
            if !is_corpus {
                if let Some(d) = &c.opts.response_derives {
                    if d.contains("Serialize") {
                        c.opts.response_derives = Some("Debug,PartialEq".into());
                    }
                }
            }
        }
        // ---- form L: the library token stream ------------------------------------------------
        let mut lopts = c.opts.clone();
        if use_sc_module {
            lopts.scalars_module = Some(format!("crate::case_{}::sc", code_id(idx, 0)));
        }
        let res = ctx.run(&c.sdl, false, &c.qtext, &lopts);
        // (two items of ONE name - the witness of `schema-type-names-equal-after-normalization` - cannot be read back into the
        // IR faithfully: the extractor attaches `impl` blocks to items by their name)
        if !res.diffs.is_empty() && c.corpus_class != Some("schema-type-names-equal-after-normalization") {
            rep.disagree(json!({"what": "IR of the model's generate vs IR extracted from the implementation", "diffs": res.diffs.iter().take(5).collect::<Vec<_>>(),
                "schema": c.sdl, "query": c.qtext, "options": lopts.describe()}));
        }
        let (tokens, modules) = match (&res.real, res.modules) {
            (RealOutcome::Ok(t), Some(m)) => (t.clone(), m),
            // the generator succeeded but the extractor cannot read a construct of the emitted code: a broken tie (the
            // IR-based oracles cannot run), not a refusal of the input
            (RealOutcome::Ok(_), None) => {
                rep.disagree(json!({"what": "the emitted tokens could not be read into the IR", "file": "c02.rs"}));
                continue;
            }
            (other, _) => {
                rep.count(&format!("generation:{}", other.kind()));
                rep.case(None);
                rep.fail("supported-input-rejected", json!({"schema": c.sdl, "query": c.qtext, "options": lopts.describe(), "outcome": format!("{:?}", other).chars().take(400).collect::<String>()}));
                continue;
            }
        };
        let ops: Vec<(String, String)> = modules.iter().map(|m| (m.sexp.items()[8].as_str().unwrap_or("").to_string(), m.mod_name.clone())).collect();
        let mut lprelude = prelude(&c.schema, &lopts, true);
        if lopts.response_derives.as_deref().map(|d| d.contains("Serialize")).unwrap_or(false) {
            // requesting `Serialize` must give a usable impl: instantiate it
            for (_, module) in &ops {
                lprelude.push_str(&format!("    pub fn _ser_{m}(v: &{m}::ResponseData) -> Option<String> {{ serde_json::to_string(v).ok() }}\n", m = module));
            }
        }
        serde_codes.push(CaseCode { id: code_id(idx, 0), prelude: lprelude, tokens, ops: ops.clone(), enums: vec![], no_serialize: true });
        modules_of.insert(idx, modules);
        if all_forms {
            // ---- form C: the CLI-written file, used as a module file ---------------------------
            let mut copts = c.opts.clone();
            copts.extern_enums.clear(); // a module file cannot see consumer enums through `use super::*`
            copts.normalization_rust = false; // the CLI has no normalization flag
            copts.skip_none = false;
            copts.scalars_module = Some(format!("crate::case_{}::sc", code_id(idx, 1)));
            match cli_generate(&ctx.work, code_id(idx, 1), &c.sdl, &c.qtext, &copts) {
                Ok(text) => {
                    let rel = format!("src/case_{}_cli.rs", code_id(idx, 1));
                    let abs = format!("{}/consumers/c02s-{}/{}", std::env::var("VERIF_WORK").unwrap_or_else(|_| "/verif/.work".into()), std::process::id(), rel);
                    serde_files.push((rel, text));
                    let mut p = prelude(&c.schema, &copts, true);
                    p.push_str(&format!("    #[path = {:?}]\n    pub mod cli_form;\n", abs));
                    serde_codes.push(CaseCode { id: code_id(idx, 1), prelude: p, tokens: String::new(), ops: vec![], enums: vec![], no_serialize: true });
                    c.forms.push(1);
                }
                Err(e) => {
                    rep.case(None);
                    rep.fail("supported-input-rejected-by-cli", json!({"schema": c.sdl, "query": c.qtext, "options": copts.describe(), "error": e}));
                }
            }
            // ---- forms D, N: the derive macro ---------------------------------------------------
            for form in [2usize, 3] {
                let id = code_id(idx, form);
                let mut dopts = c.opts.clone();
                if form == 3 {
                    dopts.extern_enums.clear(); // a crate without serde cannot supply (de)serializable enums
                }
                if use_sc_module {
                    dopts.scalars_module = Some(format!("crate::case_{}::sc", id));
                }
                let mut toks = String::new();
                for op in &c.doc.ops {
                    let name = if dopts.normalization_rust { op.name.to_upper_camel_case() } else { op.name.clone() };
                    toks.push_str(&derive_attr(&c, id, &dopts, &name));
                }
                let files = vec![(format!("gql/case_{}_schema.graphql", id), c.sdl.clone()), (format!("gql/case_{}_query.graphql", id), c.qtext.clone())];
                let code = CaseCode { id, prelude: prelude(&c.schema, &dopts, form == 2), tokens: toks, ops: vec![], enums: vec![], no_serialize: true };
                if form == 2 {
                    serde_files.extend(files);
                    serde_codes.push(code);
                } else {
                    plain_files.extend(files);
                    plain_codes.push(code);
                }
                c.forms.push(form);
            }
        }
        cases.push(c);
    }
    // ---- compile ---------------------------------------------------------------------------------
    let serde_build = build_compile_only("c02s", &serde_codes, true, &serde_files);
    let plain_build = build_compile_only("c02n", &plain_codes, false, &plain_files);
    for b in [&serde_build, &plain_build] {
        for e in &b.global_errors {
            rep.internal.push(format!("consumer build: {}", e.chars().take(300).collect::<String>()));
        }
    }
    rep.extra.insert("consumer_build_s".into(), json!([serde_build.wall_s, plain_build.wall_s]));
    rep.extra.insert("consumer_build_rounds".into(), json!([serde_build.rounds, plain_build.rounds]));
    // ---- verdicts --------------------------------------------------------------------------------
    let mut mention_routes: BTreeMap<&'static str, u64> = BTreeMap::new();
    for c in &cases {
        let modules = &modules_of[&c.idx];
        // scope check of the model on the extracted IR (per module = per operation: self-contained)
        let sup = {
            let mut lopts = c.opts.clone();
            if c.sc_module {
                lopts.scalars_module = Some(format!("crate::case_{}::sc", code_id(c.idx, 0)));
            }
            supplied(&c.schema, &lopts)
        };
        let mut scope_ok = true;
        let mut scope_reports = Vec::new();
        let mut nontrivial = false;
        for m in modules {
            let kinds: Vec<&str> = m.items.iter().filter_map(|i| i.head()).collect();
            let n_structs = kinds.iter().filter(|k| **k == "struct" || **k == "tagged" || **k == "unit").count();
            if n_structs > 2 || kinds.iter().any(|k| *k == "gqlenum" || *k == "oneof") {
                nontrivial = true;
            }
            for (k, route) in [("gqlenum", "enum"), ("oneof", "oneof-input"), ("tagged", "abstract-selection"), ("alias", "alias")] {
                if kinds.iter().any(|x| *x == k) {
                    *mention_routes.entry(route).or_insert(0) += 1;
                }
            }
            // the operation struct next to the module (both in the type namespace)
            let h = ctx.model.ask(&tagged("scope-header", vec![m.sexp.items()[1].clone(), m.sexp.items()[3].clone()]));
            if h.head() == Some("scope-header") && h.items()[1].as_str() == Some("true") {
                scope_ok = false;
                scope_reports.push(format!("operation struct and module are both named {}", m.mod_name));
            }
            let r = ctx.model.ask(&tagged("scope", vec![list(m.items.clone()), strs(sup.iter())]));
            match r.head() {
                Some("scope") => {
                    let ok = r.items()[1].as_str() == Some("true");
                    if !ok {
                        scope_ok = false;
                        scope_reports.push(r.short(400));
                    }
                }
                Some("nomodel") => {}
                _ => rep.internal.push(format!("scope request refused: {}", r.short(200))),
            }
        }
        for &form in &c.forms {
            let id = code_id(c.idx, form);
            let b = if form == 3 { &plain_build } else { &serde_build };
            let compiled = b.compiled.contains(&id);
            let errors: Vec<String> = b.failed.get(&id).cloned().unwrap_or_default();
            if !compiled && errors.is_empty() {
                // neither compiled nor attributed: the build as a whole failed (reported as internal above)
                continue;
            }
            rep.count(&format!("form:{}", FORMS[form]));
            rep.count(if compiled { "compiled" } else { "not-compiling" });
            let key = format!("{}|{}|{}|{}", c.sdl, c.qtext, c.opts.describe(), form);
            rep.case(if nontrivial { Some(&key) } else { None });
            let case_json = |extra: Value| {
                json!({"schema": c.sdl, "query": c.qtext, "options": c.opts.describe(), "delivery_form": FORMS[form],
                       "rustc_errors": errors.iter().take(6).collect::<Vec<_>>(), "detail": extra})
            };
            if compiled {
                if let Some(cc) = c.corpus_class {
                    rep.count(&format!("known-finding-witness-now-compiles:{}", cc));
                }
            }
            if !compiled {
                let codes: Vec<String> = errors.iter().map(|e| e.split(':').next().unwrap_or("").to_string()).collect();
                let class = finding_class(c, &codes).map(|s| s.to_string()).unwrap_or_else(|| {
                    let mut cs = codes.clone();
                    cs.sort();
                    cs.dedup();
                    format!("generated-code-does-not-compile:{}:{}", FORMS[form], cs.join("+"))
                });
                rep.fail(&class, case_json(json!({"scope_check": scope_reports})));
            }
            // tie: the scope discipline (on the library form's IR) against rustc
            if form == 0 && ctx.model.available() {
                let explained_elsewhere = errors.iter().any(|e| e.starts_with("E0275") || e.starts_with("E0072"));
                if compiled == scope_ok || (!compiled && scope_ok && explained_elsewhere) {
                    rep.traces_validated += 1;
                } else {
                    rep.disagree(case_json(json!({"what": "Lean scope discipline vs rustc", "rustc_compiled": compiled, "model_well_scoped": scope_ok, "scope_reports": scope_reports})));
                }
            }
            if rep.samples.len() < 4 && nontrivial && rep.evaluations % 23 == 5 {
                rep.sample(json!({"query": c.qtext, "options": c.opts.describe(), "delivery_form": FORMS[form], "compiled": compiled}));
            }
        }
    }
    for (k, v) in mention_routes {
        rep.count_n(&format!("modules_with:{}", k), v);
    }
    rep.extra.insert("model_requests".into(), json!(ctx.model.requests));
    remove_consumer(&serde_build);
    remove_consumer(&plain_build);
    rep.finish()
}
