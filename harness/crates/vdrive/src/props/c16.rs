//! C16 — ID fields accept strings and integers, canonically, wherever ID appears.
//! (a) direct calls of graphql_client::serde_with::* ; (b) every ID type expression to list depth 3
//! at plain / flattened (fragment) / variant positions, compiled; (c) the attachment rule on the IR.
use super::wire::*;
use serde_json::{json, Value};
use vcore::caserun::*;
use vcore::common::*;
use vcore::consumer::*;
use vcore::gen::op::*;
use vcore::gen::rng::Rng;
use vcore::gen::schema::*;
use vcore::report::*;
use vcore::sexp::*;

/// the property's rule, written from its statement: which JSON a type expression over ID admits
fn id_accepts(t: &ATy, j: &Value) -> bool {
    fn nn(t: &ATy, j: &Value) -> bool {
        match t {
            ATy::NonNull(i) => nn(i, j),
            ATy::List(i) => j.as_array().map(|xs| xs.iter().all(|x| id_accepts(i, x))).unwrap_or(false),
            ATy::Named(_) => j.is_string() || j.as_i64().is_some(),
        }
    }
    match t {
        ATy::NonNull(i) => nn(i, j),
        other => j.is_null() || nn(other, j),
    }
}

/// canonical value: integers become their decimal strings
fn id_canon(j: &Value) -> Value {
    match j {
        Value::Number(n) if n.is_i64() || n.is_u64() => json!(n.to_string()),
        Value::Array(xs) => Value::Array(xs.iter().map(id_canon).collect()),
        other => other.clone(),
    }
}

fn leaf_values(rng: &mut Rng) -> Vec<Value> {
    let mut v = vec![
        json!("abc"), json!(""), json!("42"), json!("-7"), json!("ünï ✓"), json!("1e3"),
        json!(0), json!(7), json!(-3), json!(i64::MAX), json!(i64::MIN), json!(i32::MAX as i64 + 1),
        json!(u64::MAX), json!(i64::MAX as u64 + 1), json!(1.5), json!(3.0), json!(1e30), json!(true), json!(false),
        json!({}), json!({"a": 1}), json!([]), json!(["x"]), Value::Null,
    ];
    for _ in 0..6 {
        v.push(json!(rng.next() as i64));
    }
    v
}

/// values for a type expression: conforming ones built from leaf values, plus shape corruptions
fn values_for(rng: &mut Rng, t: &ATy, leafs: &[Value]) -> Vec<Value> {
    match t {
        ATy::NonNull(i) => values_for(rng, i, leafs),
        ATy::Named(_) => leafs.to_vec(),
        ATy::List(i) => {
            let inner = values_for(rng, i, leafs);
            let mut out = vec![Value::Null, json!([]), json!("not a list"), json!(5), json!({})];
            for _ in 0..10 {
                let n = rng.range(1, 3);
                out.push(Value::Array((0..n).map(|_| rng.pick(&inner).clone()).collect()));
            }
            // one list of only good strings / ints, one with a null element
            out.push(json!([rng.pick(&[json!("a"), json!(1)]).clone(), rng.pick(&[json!("b"), json!(-2)]).clone()]));
            out
        }
    }
}

fn rust_ty_sexp(t: &ATy) -> Sexp {
    fn nn(t: &ATy) -> Sexp {
        match t {
            ATy::Named(_) => tagged("p", vec![st("String")]),
            ATy::List(i) => tagged("vec", vec![full(i)]),
            ATy::NonNull(i) => nn(i),
        }
    }
    fn full(t: &ATy) -> Sexp {
        match t {
            ATy::NonNull(i) => nn(i),
            other => tagged("opt", vec![nn(other)]),
        }
    }
    full(t)
}

fn check_attachment(rep: &mut Report, items: &[Sexp], shapes: &[ATy], label: &str) {
    // (c) attachment rule on the IR: helper iff ID, and the helper chosen fits the type
    for it in items.iter().filter(|i| i.head() == Some("struct")) {
        for f in struct_fields(it) {
            let is_id_field = f.rust.starts_with('f') && f.rust[1..].chars().all(|c| c.is_ascii_digit());
            rep.count(if is_id_field { "ir-field:ID" } else { "ir-field:other" });
            if is_id_field != f.deser_with.is_some() && !f.flatten && f.rust != "on" {
                rep.fail("id-helper-attachment", json!({"schema_rendering": label, "struct": it.items()[1].render(), "field": f.rust, "helper": f.deser_with, "type": ty_string(f.ty)}));
            }
            if is_id_field {
                let idx: usize = f.rust[1..].parse().unwrap_or(0);
                let shape = &shapes[idx];
                let expected_helper = if shape.has_list() { "deserialize_nested_id" } else if shape.is_non_null() { "deserialize_id" } else { "deserialize_option_id" };
                if !f.deser_with.map(|h| h.ends_with(expected_helper)).unwrap_or(false) {
                    rep.fail("id-helper-does-not-fit-type", json!({"schema_rendering": label, "field": f.rust, "graphql_type": shape.render(), "helper": f.deser_with, "rust_type": ty_string(f.ty)}));
                }
                if f.default == shape.is_non_null() {
                    rep.fail("id-default-attribute", json!({"schema_rendering": label, "field": f.rust, "graphql_type": shape.render(), "default": f.default}));
                }
            }
        }
    }
}

pub fn run(a: &Args) -> i32 {
    let mut rep = Report::new(
        "C16",
        a,
        "(a) the three helpers of graphql_client::serde_with called in-process on strings (numeric-looking, empty, non-ASCII), i64 boundary and random integers, u64 above i64::MAX, floats, booleans, arrays, objects, null; (b) every ID type expression to list depth 3 (30 shapes) x {plain field, field inside a spread fragment (flattened), field inside an inline fragment on an interface implementor (variant)} compiled into a consumer crate x values (conforming: strings / integers at the leaves, lists of length 0..3, nulls at nullable levels; non-conforming: wrong leaf kinds, non-lists, null at non-null levels, absent keys); (c) the attachment rule read from the emitted attributes: helper present iff the field's GraphQL type is ID; a case = one (position, shape, value) or one direct helper call; non-trivial = the value contains an integer or a list",
    );
    let mut rng = Rng::new(a.seed);
    let mut ctx = CaseCtx::new();
    // ---------------------------------------------------------------- (a) direct helper calls
    let leafs = leaf_values(&mut rng);
    for v in &leafs {
        let text = v.to_string();
        let direct = {
            let mut de = serde_json::Deserializer::from_str(&text);
            graphql_client::serde_with::deserialize_id(&mut de).ok()
        };
        let opt = {
            let mut de = serde_json::Deserializer::from_str(&text);
            graphql_client::serde_with::deserialize_option_id(&mut de).ok()
        };
        let want: Option<String> = if let Some(s) = v.as_str() { Some(s.to_string()) } else if let Some(i) = v.as_i64() { Some(i.to_string()) } else { None };
        let hkey = format!("helper|{}", text);
        rep.case(if v.is_number() { Some(&hkey) } else { None });
        rep.count("direct-helper-call");
        // an unsigned integer above i64::MAX: the statement speaks of 64-bit SIGNED integers and is silent here; what the
        // helpers do with it is compared with the model below, not demanded
        let beyond_i64 = v.is_u64() && !v.is_i64();
        if direct != want && !beyond_i64 {
            rep.fail("deserialize_id-wrong", json!({"input": v, "expected": want, "got": direct}));
        }
        let want_opt: Option<Option<String>> = if v.is_null() { Some(None) } else { want.clone().map(Some) };
        if opt != want_opt && !beyond_i64 {
            rep.fail("deserialize_option_id-wrong", json!({"input": v, "expected": want_opt, "got": opt}));
        }
        if ctx.model.available() {
            for (h, ty, got) in [
                ("graphql_client::serde_with::deserialize_id", tagged("p", vec![st("String")]), direct.clone().map(|s| json!(s))),
                ("graphql_client::serde_with::deserialize_option_id", tagged("opt", vec![tagged("p", vec![st("String")])]), opt.clone().map(|o| json!(o))),
            ] {
                let m = ctx.model.ask(&tagged("id-helper", vec![st(h), ty, vcore::ast2sexp::json_sexp(v)]));
                let reply = match got {
                    Some(j) => Reply::Ok(j),
                    None => Reply::Err("rejected".into()),
                };
                match tie(&reply, &m) {
                    None => rep.traces_validated += 1,
                    Some(d) => rep.disagree(json!({"what": "helper model", "helper": h, "input": v, "difference": d})),
                }
            }
        }
    }
    // ---------------------------------------------------------------- (b) + (c) compiled positions
    let shapes = ATy::all_shapes("ID", 3);
    let mut fields = vec![AField { name: "other".into(), ty: ATy::named("String"), dep: None }];
    for (i, t) in shapes.iter().enumerate() {
        fields.push(AField { name: format!("f{}", i), ty: t.clone(), dep: None });
    }
    let schema = ASchema {
        types: vec![
            AType::Interface { name: "Node".into(), fields: vec![AField { name: "other".into(), ty: ATy::named("String"), dep: None }] },
            AType::Object { name: "Holder".into(), implements: vec!["Node".into()], fields: fields.clone(), ext_fields: vec![] },
            AType::Object {
                name: "Query".into(),
                implements: vec![],
                fields: vec![
                    AField { name: "plain".into(), ty: ATy::named("Holder"), dep: None },
                    AField { name: "viaFragment".into(), ty: ATy::named("Holder"), dep: None },
                    AField { name: "viaVariant".into(), ty: ATy::named("Node"), dep: None },
                ],
                ext_fields: vec![],
            },
        ],
        query: Some("Query".into()),
        mutation: None,
        subscription: None,
    };
    let all: Vec<ASel> = (0..shapes.len()).map(|i| ASel::Field { alias: None, name: format!("f{}", i), sub: vec![] }).collect();
    let mut plain = all.clone();
    plain.push(ASel::Field { alias: None, name: "other".into(), sub: vec![] });
    let doc = ADoc {
        ops: vec![AOp {
            kind: "query",
            name: "Q".into(),
            vars: vec![],
            sels: vec![
                ASel::Field { alias: None, name: "plain".into(), sub: plain },
                ASel::Field { alias: None, name: "viaFragment".into(), sub: vec![ASel::Field { alias: None, name: "other".into(), sub: vec![] }, ASel::Spread { name: "Ids".into() }] },
                ASel::Field { alias: None, name: "viaVariant".into(), sub: vec![ASel::Typename, ASel::Field { alias: None, name: "other".into(), sub: vec![] }, ASel::Inline { on: "Holder".into(), sub: all.clone() }] },
            ],
        }],
        frags: vec![AFrag { name: "Ids".into(), on: "Holder".into(), sels: all.clone() }],
    };
    // the compiled case reads the schema from SDL that re-declares the built-in scalars
    let sdl = schema.to_sdl(&RenderKnobs { sdl_builtin_scalars: true, ..RenderKnobs::default() });
    let qtext = doc.render();
    let opts = Opts::harness();
    let res = ctx.run(&sdl, false, &qtext, &opts);
    if !res.diffs.is_empty() {
        rep.disagree(json!({"what": "IR", "diffs": res.diffs.iter().take(6).collect::<Vec<_>>()}));
    }
    let (tokens, modules) = match (&res.real, res.modules) {
        (RealOutcome::Ok(t), Some(m)) => (t.clone(), m),
        // the generator succeeded but the extractor cannot read a construct of the emitted code: a broken tie (the
        // IR-based oracles cannot run), not a refusal of the input
        (RealOutcome::Ok(_), None) => {
            rep.disagree(json!({"what": "the emitted tokens could not be read into the IR", "file": "c16.rs"}));
            return rep.finish();
        }
        (other, _) => {
            rep.fail("generation-failed", json!({"outcome": format!("{:?}", other), "schema": sdl, "query": qtext}));
            return rep.finish();
        }
    };
    // (c) attachment rule on the IR, for three renderings of the same schema: plain SDL, SDL that re-declares the
    // built-in scalars (`scalar ID` ...), introspection JSON
    check_attachment(&mut rep, &modules[0].items, &shapes, "sdl-with-builtin-scalars");
    for (label, text, is_json) in [
        ("sdl", schema.to_sdl(&RenderKnobs::default()), false),
        ("json", serde_json::to_string(&schema.to_json(&RenderKnobs::default())).unwrap(), true),
    ] {
        let r = ctx.run(&text, is_json, &qtext, &opts);
        if !r.diffs.is_empty() {
            rep.disagree(json!({"what": "IR", "schema_rendering": label, "diffs": r.diffs.iter().take(6).collect::<Vec<_>>()}));
        }
        match r.modules {
            Some(m) if !m.is_empty() => check_attachment(&mut rep, &m[0].items, &shapes, label),
            _ => rep.fail("generation-failed", json!({"schema_rendering": label, "outcome": format!("{:?}", r.real).chars().take(300).collect::<String>()})),
        }
    }
    let code = CaseCode { id: 0, prelude: String::new(), tokens, ops: vec![("Q".into(), "q".into())], enums: vec![], no_serialize: false };
    // the same operation generated under `normalization = rust`: `ID` keeps its name and its coercion there too
    let mut codes = vec![code];
    // ... and with `skip_serializing_none` (a nullable ID position then carries its `default` next to `skip_serializing_if`)
    for (cid, what, rust, skip) in [(1usize, "normalization rust", true, false), (2usize, "skip_serializing_none", false, true)] {
        let mut ropts = Opts::harness();
        ropts.normalization_rust = rust;
        ropts.skip_none = skip;
        let r = ctx.run(&sdl, false, &qtext, &ropts);
        if !r.diffs.is_empty() {
            rep.disagree(json!({"what": format!("IR ({})", what), "diffs": r.diffs.iter().take(6).collect::<Vec<_>>()}));
        }
        match (&r.real, &r.modules) {
            (RealOutcome::Ok(t), Some(m)) if !m.is_empty() => {
                check_attachment(&mut rep, &m[0].items, &shapes, &format!("sdl-with-builtin-scalars/{}", what.replace(' ', "-")));
                codes.push(CaseCode { id: cid, prelude: String::new(), tokens: t.clone(), ops: vec![("Q".into(), "q".into())], enums: vec![], no_serialize: false });
            }
            (RealOutcome::Ok(_), _) => rep.disagree(json!({"what": "the emitted tokens could not be read into the IR", "file": "c16.rs", "options": what})),
            (other, _) => rep.fail("generation-failed", json!({"options": what, "outcome": format!("{:?}", other).chars().take(300).collect::<String>()})),
        }
    }
    let build = build_consumer("c16", &codes, true, &[]);
    for cid in codes.iter().map(|c| c.id) {
        if !build.compiled.contains(&cid) {
            rep.fail("id-positions-do-not-compile", json!({"normalization_rust": cid == 1, "skip_serializing_none": cid == 2, "errors": build.failed.get(&cid), "global": build.global_errors, "schema": sdl, "query": qtext}));
        }
    }
    if !build.compiled.contains(&0) {
        remove_consumer(&build);
        return rep.finish();
    }
    let rust_too = build.compiled.contains(&1);
    let exe = build.exe.clone().unwrap();
    if ctx.model.available() {
        ctx.model.ask(&tagged("env-set", vec![atom("0"), list(modules[0].items.clone()), list(vec![])]));
    }
    // base payload: everything null / minimal, then one field at one position set to the value under test
    let base_holder = |set: Option<(usize, &Value)>, absent: Option<usize>| -> Value {
        let mut m = serde_json::Map::new();
        m.insert("other".into(), json!("o"));
        for (i, t) in shapes.iter().enumerate() {
            if absent == Some(i) {
                continue;
            }
            let v = match set {
                Some((j, v)) if j == i => v.clone(),
                _ => {
                    if t.is_non_null() {
                        if t.has_list() { json!([]) } else { json!("x") }
                    } else {
                        Value::Null
                    }
                }
            };
            m.insert(format!("f{}", i), v);
        }
        Value::Object(m)
    };
    struct V {
        position: &'static str,
        shape: usize,
        value: Option<Value>, // None = key absent
        payload: Value,
    }
    let mut vs: Vec<V> = Vec::new();
    let per_shape = if rep.thorough() { 40 } else { 12 };
    for (i, t) in shapes.iter().enumerate() {
        let mut values = values_for(&mut rng, t, &leafs);
        rng.shuffle(&mut values);
        values.truncate(per_shape);
        values.push(Value::Null);
        for position in ["plain", "viaFragment", "viaVariant"] {
            let mk = |holder: Value| -> Value {
                let mut h = holder;
                if position == "viaVariant" {
                    h.as_object_mut().unwrap().insert("__typename".into(), json!("Holder"));
                }
                let mut root = serde_json::Map::new();
                for p in ["plain", "viaFragment", "viaVariant"] {
                    root.insert(p.into(), if p == position { h.clone() } else { Value::Null });
                }
                Value::Object(root)
            };
            for v in &values {
                vs.push(V { position, shape: i, value: Some(v.clone()), payload: mk(base_holder(Some((i, v)), None)) });
            }
            vs.push(V { position, shape: i, value: None, payload: mk(base_holder(None, Some(i))) });
        }
    }
    let mut runs: Vec<(usize, &V)> = vs.iter().map(|v| (0usize, v)).collect();
    if rust_too {
        runs.extend(vs.iter().map(|v| (1usize, v)));
    }
    if build.compiled.contains(&2) {
        runs.extend(vs.iter().map(|v| (2usize, v)));
    }
    let requests: Vec<(usize, String, String, String)> = runs.iter().map(|(cid, v)| (*cid, "de".to_string(), "Q".to_string(), v.payload.to_string())).collect();
    let replies = run_consumer(&exe, &requests);
    for ((cid, v), raw) in runs.iter().zip(replies.iter()) {
        let cid = *cid;
        let t = &shapes[v.shape];
        let reply = parse_reply(raw);
        let key = format!("{}|{}|{:?}|{}", v.position, t.render(), v.value, cid);
        let nontrivial = v.value.as_ref().map(|x| x.is_number() || x.is_array()).unwrap_or(false);
        rep.case(if nontrivial { Some(&key) } else { None });
        rep.count(&format!("position:{}", v.position));
        rep.count(&format!("list_depth:{}", t.list_depth()));
        let should_accept = match &v.value {
            Some(x) => id_accepts(t, x),
            None => !t.is_non_null(), // an absent key is fine exactly at nullable positions
        };
        let case = json!({"position": v.position, "graphql_type": t.render(), "value": v.value, "payload": v.payload, "implementation_reply": raw, "schema": sdl, "query": qtext, "normalization_rust": cid == 1, "skip_serializing_none": cid == 2});
        match &reply {
            Reply::Ok(reser) => {
                if !should_accept {
                    rep.fail("non-id-value-accepted", case.clone());
                } else {
                    let got = reser.pointer(&format!("/{}/f{}", v.position, v.shape)).cloned().unwrap_or(Value::Null);
                    let want = v.value.as_ref().map(id_canon).unwrap_or(Value::Null);
                    if got != want {
                        rep.fail("id-not-canonical", json!({"case": case, "expected": want, "got": got}));
                    }
                }
            }
            Reply::Err(_) => {
                if should_accept {
                    rep.fail(if v.value.is_none() { "absent-nullable-id-rejected" } else { "id-value-rejected" }, case.clone());
                }
            }
            Reply::Other(o) => rep.internal.push(format!("consumer reply: {}", o)),
        }
        if cid == 0 {
            let m = model_rt(&mut ctx.model, 0, "ResponseData", &v.payload);
            match tie(&reply, &m) {
                None => rep.traces_validated += 1,
                Some(d) => rep.disagree(json!({"what": "serde model", "case": case, "difference": d})),
            }
        }
        if rep.samples.len() < 5 && nontrivial && rep.evaluations % 311 == 9 {
            rep.sample(json!({"position": v.position, "graphql_type": t.render(), "rust_helper_type": rust_ty_sexp(t).render(), "value": v.value, "reply": raw.chars().take(120).collect::<String>()}));
        }
    }
    remove_consumer(&build);
    rep.extra.insert("model_requests".into(), json!(ctx.model.requests));
    rep.finish()
}
