pub mod c13;
pub mod c06;
pub mod c07;
pub mod c17;
