pub mod c13;
pub mod c06;
pub mod c07;
pub mod c17;
pub mod c01;
pub mod wire;
pub mod c04;
pub mod c10;
