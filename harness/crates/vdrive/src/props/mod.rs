pub mod c13;
