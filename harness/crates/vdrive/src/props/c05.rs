//! C05 — request body carries the verbatim document and the right operation name.
use super::wire::*;
use serde_json::{json, Value};
use vcore::caserun::*;
use vcore::common::*;
use vcore::consumer::*;
use vcore::gen::op::*;
use vcore::gen::rng::Rng;
use vcore::gen::schema::*;
use vcore::report::*;
use vcore::sexp::{st, tagged};

/// adversarial but semantically neutral rewriting of a document text
fn decorate(rng: &mut Rng, text: &str) -> String {
    let comments = [
        "# plain comment",
        "# comment with \"quotes\", a \\ backslash and ünïcode ✓ 𝄞",
        "#\ttab\tseparated",
        "# looks like an escape: \\u{41} \\n \\x41 {{ }}",
        "# zero\u{200b}width, combining e\u{301}, del \u{7f}, soft\u{ad}hyphen, rtl \u{202e}x, private \u{e000}, '\"'",
    ];
    let mut out = String::new();
    for line in text.lines() {
        if rng.chance(15) {
            let c: &str = *rng.pick(&comments);
            out.push_str(c);
            out.push('\n');
        }
        out.push_str(line);
        if rng.chance(10) {
            out.push_str("   ");
        }
        if rng.chance(10) {
            out.push_str(" ,");
        }
        out.push('\n');
    }
    if rng.chance(30) {
        out = out.replace('\n', "\r\n");
    }
    if rng.chance(30) {
        out = out.replace("  ", "\t");
    }
    if rng.chance(20) {
        out.push_str("\n\n\n");
    }
    if rng.chance(20) {
        // a byte order mark in front of the document (ignored by the GraphQL lexer, part of the verbatim text)
        out = format!("\u{feff}{}", out);
    }
    out
}

fn root_keys(sels: &[ASel], doc: &ADoc, out: &mut Vec<String>, depth: usize) {
    if depth > 8 {
        return;
    }
    for s in sels {
        match s {
            ASel::Field { alias, name, .. } => out.push(alias.clone().unwrap_or_else(|| name.clone())),
            ASel::Spread { name } => {
                if let Some(f) = doc.frag(name) {
                    root_keys(&f.sels, doc, out, depth + 1)
                }
            }
            ASel::Inline { sub, .. } => root_keys(sub, doc, out, depth + 1),
            ASel::Typename => {}
        }
    }
}

pub fn run(a: &Args) -> i32 {
    let mut rep = Report::new(
        "C05",
        a,
        "random documents with 1..3 operations and fragments, rewritten with comments (quotes, backslashes, non-ASCII, escape look-alikes), CRLF line ends, tabs, commas and trailing blank lines, string literals with escapes in variable defaults x selection {none, each operation by name, a non-matching name, a name matching only after normalization} x mode {CLI/library, derive} x normalization {none, rust}; a case = one generation call whose outcome / OPERATION_NAME / QUERY / variables / root response keys are compared with the selected operation; a subset is compiled (library tokens and real derives) and the constants and build_query body are read back from the compiled code; non-trivial = several operations or a decorated text",
    );
    let mut rng = Rng::new(a.seed);
    let mut ctx = CaseCtx::new();
    let n = if rep.thorough() { 400 } else { 50 };
    let mut codes: Vec<CaseCode> = Vec::new();
    let mut compiled_meta: Vec<(usize, String, String, String, String)> = Vec::new(); // (id, op struct, op name, text, a valid variables assignment)
    let mut extra_files: Vec<(String, String)> = Vec::new();
    let mut derive_expect_err: Vec<(usize, Vec<String>)> = Vec::new();
    for case_i in 0..n {
        let schema = random_schema(&mut rng, &SchemaKnobs::default());
        let mut doc = random_doc(&mut rng, &schema, &OpKnobs::default());
        // op names of different styles; one that matches a struct name only after normalization
        let styles = ["MyQuery", "second_op_x", "Third", "getStuff"];
        for (i, op) in doc.ops.iter_mut().enumerate() {
            op.name = styles[i % styles.len()].to_string();
            if i == 0 && rng.chance(30) {
                op.vars.push(AVar { name: "note".into(), ty: ATy::named("String"), default: Some("\"he said \\\"hi\\\" \\\\ \\u00e9 ✓\"".into()) });
            }
        }
        let sdl = schema.to_sdl(&RenderKnobs::default());
        // the first documents are decorated in fixed ways (and always compiled in the library form and as a derive, see
        // below): CR LF line ends, a byte order mark, `"#` sequences and a lone CR inside comments, trailing blanks
        let forced = case_i < 6;
        let text = if forced {
            let plain = doc.render();
            let mut t = String::new();
            for (k, line) in plain.lines().enumerate() {
                if k % 3 == 1 {
                    t.push_str("# a comment with \"# and \"## and r#\"raw\"# look-alikes, ünïcode ✓\n");
                }
                t.push_str(line);
                if k % 4 == 2 {
                    t.push_str("  \t");
                }
                t.push('\n');
            }
            if case_i % 2 == 0 {
                t = t.replace('\n', "\r\n");
            }
            if case_i % 3 == 0 {
                t = format!("\u{feff}{}", t);
            }
            if case_i == 5 {
                t.push_str("\n\n# trailing blank lines and a comment without a newline at the end");
            }
            t
        } else if rng.chance(70) { decorate(&mut rng, &doc.render()) } else { doc.render() };
        if graphql_parser::parse_query::<String>(&text).is_err() {
            rep.internal.push(format!("decorated document does not parse:\n{}", text));
            continue;
        }
        let op_names: Vec<String> = doc.ops.iter().map(|o| o.name.clone()).collect();
        let nontrivial = doc.ops.len() > 1 || text != doc.render();
        // ---- selections
        let mut selections: Vec<(&'static str, Opts, Option<usize>)> = Vec::new(); // (label, opts, expected selected op idx; None = all / error)
        let mut base = Opts::harness();
        base.normalization_rust = rng.chance(40);
        // snake_case operation names clash with their module in CLI mode (known finding of C02), so CLI
        // cases are generated (IR compared) but only compiled when no name is snake_case
        selections.push(("cli-none", base.clone(), None));
        for (i, n) in op_names.iter().enumerate() {
            let mut o = base.clone();
            let norm_name = if o.normalization_rust { heck::ToUpperCamelCase::to_upper_camel_case(n.as_str()) } else { n.clone() };
            o.operation_name = Some(norm_name);
            selections.push(("cli-explicit", o, Some(i)));
            let mut d = base.clone();
            d.derive_mode = true;
            d.struct_ident = Some(n.clone());
            d.operation_name = Some(n.clone());
            // in derive mode the struct name must equal the normalized operation name
            let matches = if d.normalization_rust { heck::ToUpperCamelCase::to_upper_camel_case(n.as_str()) == *n } else { true };
            selections.push(("derive-same-name", d, if matches { Some(i) } else { None }));
            // struct named after the normalized form
            let camel = heck::ToUpperCamelCase::to_upper_camel_case(n.as_str());
            if camel != *n {
                let mut d2 = base.clone();
                d2.derive_mode = true;
                d2.struct_ident = Some(camel.clone());
                d2.operation_name = Some(camel.clone());
                let hit = if d2.normalization_rust { Some(i) } else { op_names.iter().position(|x| *x == camel) };
                selections.push(("derive-normalized-name", d2, hit));
            }
        }
        let mut d = base.clone();
        d.derive_mode = true;
        d.struct_ident = Some("NoSuchOperation".into());
        d.operation_name = Some("NoSuchOperation".into());
        selections.push(("derive-no-match", d, None));
        for (label, opts, expected) in selections {
            let res = ctx.run(&sdl, false, &text, &opts);
            let key = format!("{}|{}|{}|{:?}", case_i, label, opts.normalization_rust, opts.operation_name);
            rep.case(if nontrivial { Some(&key) } else { None });
            rep.count(&format!("selection:{}", label));
            if !res.diffs.is_empty() {
                rep.disagree(json!({"selection": label, "diffs": res.diffs.iter().take(5).collect::<Vec<_>>(), "schema": sdl, "query": text, "options": opts.describe()}));
            } else {
                rep.traces_validated += 1;
            }
            let case = |extra: Value| json!({"selection": label, "options": opts.describe(), "schema": sdl, "query": text, "operations": op_names, "detail": extra});
            match (&res.real, &res.modules) {
                (RealOutcome::Ok(_), Some(mods)) => {
                    let expect_count = match (label, expected) {
                        ("cli-none", _) => op_names.len(),
                        (_, Some(_)) => 1,
                        ("derive-no-match", None) | ("derive-same-name", None) | ("derive-normalized-name", None) => {
                            rep.fail("derive-falls-back-to-another-operation", case(json!({"modules": mods.iter().map(|m| m.mod_name.clone()).collect::<Vec<_>>()})));
                            continue;
                        }
                        _ => op_names.len(),
                    };
                    if mods.len() != expect_count {
                        rep.fail("wrong-number-of-modules", case(json!({"expected": expect_count, "got": mods.len()})));
                        continue;
                    }
                    for (mi, m) in mods.iter().enumerate() {
                        let oi = expected.unwrap_or(mi);
                        let op = &doc.ops[oi];
                        let it = m.sexp.items();
                        let (op_const, query_const) = (it[4].as_str().unwrap_or(""), it[5].as_str().unwrap_or(""));
                        if op_const != op.name {
                            rep.fail("operation-name-constant", case(json!({"expected": op.name, "got": op_const})));
                        }
                        if query_const != text {
                            rep.fail("query-constant-not-verbatim", case(json!({"expected_len": text.len(), "got_len": query_const.len(), "got": query_const})));
                        }
                        // types derived from that same operation
                        let vars: Vec<String> = find_item(&m.items, "struct", "Variables").map(|v| struct_fields(v).iter().map(|f| f.wire().to_string()).collect()).unwrap_or_default();
                        let want_vars: Vec<String> = op.vars.iter().map(|v| v.name.clone()).collect();
                        // (the same SET of variables: the order of the members is not promised)
                        let (mut vars_sorted, mut want_sorted) = (vars.clone(), want_vars.clone());
                        vars_sorted.sort();
                        want_sorted.sort();
                        if vars_sorted != want_sorted {
                            rep.fail("variables-of-another-operation", case(json!({"operation": op.name, "expected": want_vars, "got": vars})));
                        }
                        let mut want_keys = Vec::new();
                        root_keys(&op.sels, &doc, &mut want_keys, 0);
                        want_keys.sort();
                        want_keys.dedup();
                        if let Some(rd) = find_item(&m.items, "struct", "ResponseData") {
                            let mut got: Vec<String> = struct_fields(rd).iter().filter(|f| !f.flatten).map(|f| f.wire().to_string()).collect();
                            let flattened = struct_fields(rd).iter().any(|f| f.flatten);
                            got.sort();
                            if !flattened && got != want_keys {
                                rep.fail("response-of-another-operation", case(json!({"operation": op.name, "expected": want_keys, "got": got})));
                            }
                        }
                    }
                    // ---- the literal TOKENS of the two constants (Model/StrLit.lean, Proofs/C05StrLit.lean): the value rustc's
                    // lexer gives the emitted token must be the source text (`litValue`), the token must spell it character
                    // by character (`IsEscapeOf`), and the model of proc_macro2's printer must write the same token
                    if let (RealOutcome::Ok(tokens), true) = (&res.real, ctx.model.available()) {
                        match vcore::extract::const_literal_tokens(tokens) {
                            Ok(lits) => {
                                for (mi, m) in mods.iter().enumerate() {
                                    let oi = expected.unwrap_or(mi);
                                    for (cname, want) in [("QUERY", text.as_str()), ("OPERATION_NAME", doc.ops[oi].name.as_str())] {
                                        let tok = lits.iter().find(|(mn, cn, _)| *mn == m.mod_name && cn == cname).map(|x| x.2.clone());
                                        let tok = match tok {
                                            Some(t) => t,
                                            None => {
                                                rep.disagree(json!({"what": "no string-literal token for the constant", "constant": cname, "module": m.mod_name, "file": "c05.rs"}));
                                                continue;
                                            }
                                        };
                                        rep.count("literal-token:checked");
                                        if tok.contains("\\u{") || tok.contains("\\x") { rep.count("literal-token:with-unicode-or-hex-escape"); }
                                        let reply = ctx.model.ask(&tagged("strlit", vec![st(&tok), st(want)]));
                                        if reply.head() == Some("ok") {
                                            rep.traces_validated += 1;
                                        } else if reply.items().get(1).and_then(|x| x.head()) == Some("value") || reply.items().get(1).and_then(|x| x.head()) == Some("rejected") {
                                            // rustc would read another value (or refuse the literal): the constant is not the source text
                                            rep.fail("query-constant-token-does-not-denote-the-source", case(json!({"constant": cname, "token": tok, "model": reply.render()})));
                                        } else {
                                            rep.disagree(json!({"what": "the literal token is not a character-by-character spelling of the source (StrLit.IsEscapeOf)", "constant": cname, "token": tok, "model": reply.render()}));
                                        }
                                        // the printer: proc_macro2's escape_utf8 with the Unicode tables of this toolchain
                                        let us: String = { let mut v: Vec<char> = want.chars().filter(|c| c.escape_debug().to_string().starts_with("\\u")).collect(); v.sort(); v.dedup(); v.into_iter().collect() };
                                        let printed = ctx.model.ask(&tagged("strlit-print", vec![st(want), st(&us)]));
                                        let model_tok = printed.items().get(1).and_then(|x| x.as_str()).unwrap_or("").to_string();
                                        if model_tok == tok {
                                            rep.traces_validated += 1;
                                        } else {
                                            rep.disagree(json!({"what": "StrLit.stringToken (model of proc_macro2's Literal::string) prints another token", "constant": cname, "token": tok, "model": model_tok}));
                                        }
                                    }
                                }
                            }
                            Err(e) => rep.disagree(json!({"what": "the emitted tokens could not be parsed for the literal tokens", "error": e, "file": "c05.rs"})),
                        }
                    }
                    // compile a subset: library tokens (CLI form)
                    let snake_clash = op_names.iter().any(|n| heck::ToSnakeCase::to_snake_case(n.as_str()) == *n);
                    if !opts.derive_mode && !snake_clash && (codes.len() < 24 && rng.chance(40) || forced && label == "cli-none") {
                        if let RealOutcome::Ok(tokens) = &res.real {
                            let id = codes.len();
                            let ops: Vec<(String, String)> = mods.iter().map(|m| (m.sexp.items()[8].as_str().unwrap_or("").to_string(), m.mod_name.clone())).collect();
                            for (mi, m) in mods.iter().enumerate() {
                                let oi = expected.unwrap_or(mi);
                                let pg = PayloadGen { s: &schema, doc: &doc, deny_deprecated: false, max_list: 2, depth_budget: 4, absent_percent: 0 };
                                let assignment = if doc.ops[oi].vars.is_empty() { "null".to_string() } else { pg.variables(&mut rng, &doc.ops[oi]).to_string() };
                                compiled_meta.push((id, m.sexp.items()[8].as_str().unwrap_or("").to_string(), doc.ops[oi].name.clone(), text.clone(), assignment));
                            }
                            codes.push(CaseCode { id, prelude: prelude_for(&schema, &opts), tokens: tokens.clone(), ops, enums: vec![], no_serialize: doc.has_recursive_fragment() });
                        }
                    }
                }
                (RealOutcome::Err(msg), _) => {
                    if let Some(i) = expected {
                        rep.fail("existing-operation-not-selected", case(json!({"operation": op_names[i], "error": msg})));
                    } else if opts.derive_mode {
                        // the error names the available operations
                        let all_listed = op_names.iter().all(|n| msg.contains(n.as_str()));
                        if !all_listed {
                            rep.fail("derive-error-does-not-list-operations", case(json!({"error": msg})));
                        }
                    } else {
                        rep.fail("generation-failed", case(json!({"error": msg})));
                    }
                }
                // the generator succeeded but the extractor cannot read a construct of the emitted code: a broken tie (the
                // IR-based oracles cannot run), not a refusal of the input
                (RealOutcome::Ok(_), None) => {
                    rep.disagree(json!({"what": "the emitted tokens could not be read into the IR", "file": "c05.rs"}));
                }
                (other, _) => rep.fail("generation-failed", case(json!({"outcome": format!("{:?}", other)}))),
            }
        }
        // a few real derives: matching and non-matching struct names
        if (extra_files.len() < 16 || forced) && !doc.has_recursive_fragment() {
            let id = codes.len();
            extra_files.push((format!("files/s{}.graphql", id), sdl.clone()));
            extra_files.push((format!("files/q{}.graphql", id), text.clone()));
            let good = op_names[0].clone();
            let snake_clash = heck::ToSnakeCase::to_snake_case(good.as_str()) == good;
            if !snake_clash {
                let tokens = format!(
                    "#[derive(graphql_client::GraphQLQuery)]\n#[graphql(schema_path = \"files/s{id}.graphql\", query_path = \"files/q{id}.graphql\", response_derives = \"Serialize,Debug,PartialEq\", variables_derives = \"Deserialize,Debug,PartialEq\")]\npub struct {good};\n",
                    id = id,
                    good = good
                );
                let pg = PayloadGen { s: &schema, doc: &doc, deny_deprecated: false, max_list: 2, depth_budget: 4, absent_percent: 0 };
                let assignment = if doc.ops[0].vars.is_empty() { "null".to_string() } else { pg.variables(&mut rng, &doc.ops[0]).to_string() };
                compiled_meta.push((id, good.clone(), good.clone(), text.clone(), assignment));
                // (custom scalars of the schema are supplied next to the struct, as the derive's users do)
                codes.push(CaseCode { id, prelude: prelude_for(&schema, &Opts::default()), tokens, ops: vec![(good.clone(), heck::ToSnakeCase::to_snake_case(good.as_str()))], enums: vec![], no_serialize: false });
                // and a struct that names no operation: must not compile, and must say which operations exist
                let bad_id = codes.len();
                let tokens = format!(
                    "#[derive(graphql_client::GraphQLQuery)]\n#[graphql(schema_path = \"files/s{id}.graphql\", query_path = \"files/q{id}.graphql\")]\npub struct DefinitelyNotAnOperation;\n",
                    id = id
                );
                codes.push(CaseCode { id: bad_id, prelude: String::new(), tokens, ops: vec![], enums: vec![], no_serialize: false });
                derive_expect_err.push((bad_id, op_names.clone()));
            }
        }
    }
    // ---- compiled constants and bodies
    let build = build_consumer("c05", &codes, true, &extra_files);
    for e in &build.global_errors {
        rep.internal.push(format!("consumer build: {}", e));
    }
    for (bad, ops) in &derive_expect_err {
        rep.case(Some(&format!("derive-compile-error|{}", bad)));
        rep.count("compiled:derive-no-match");
        match build.failed.get(bad) {
            None => rep.fail("derive-falls-back-to-another-operation", json!({"what": "a derive on a struct that names no operation compiled", "operations": ops})),
            Some(errs) => {
                let text = errs.join("\n");
                // "generation fails naming the available operations": every operation name must occur in the diagnostic
                // (whatever its wording)
                if !ops.iter().all(|o| text.contains(o.as_str())) {
                    rep.fail("derive-error-does-not-list-operations", json!({"errors": errs, "operations": ops}));
                }
            }
        }
    }
    super::wire::path_entry_sequence(&mut rep, &ctx);
    // the derive must make cargo watch the QUERY FILE (QUERY stays the verbatim document only if an edit of the
    // file triggers a rebuild): the file has to appear in the dep-info of the compiled crate
    if let Some(dep) = &build.dep_info {
        for (id, _, op_name, _, _) in &compiled_meta {
            if !build.compiled.contains(id) || !codes[*id].tokens.starts_with("#[derive") {
                continue;
            }
            rep.case(Some(&format!("derive-tracks-query-file|{}", id)));
            rep.count("compiled:derive-query-file-tracked");
            let qfile = format!("files/q{}.graphql", id);
            if !dep.contains(&qfile) {
                rep.fail("derive-does-not-track-the-query-file", json!({"operation": op_name, "query_file": qfile,
                    "what": "the query file of a #[derive(GraphQLQuery)] is not among the files cargo watches for the crate (no include_str! of it was emitted): an edit of the document would leave QUERY stale"}));
            }
        }
    } else if build.exe.is_some() {
        rep.internal.push("no dep-info file next to the consumer executable".into());
    }
    if let Some(exe) = build.exe.clone() {
        let mut reqs = Vec::new();
        let mut meta = Vec::new();
        for (id, op_struct, op_name, text, assignment) in &compiled_meta {
            if !build.compiled.contains(id) {
                let derive = codes[*id].tokens.starts_with("#[derive");
                rep.fail(if derive { "derive-form-does-not-compile" } else { "library-form-does-not-compile" }, json!({"errors": build.failed.get(id), "operation": op_name, "query": text}));
                continue;
            }
            reqs.push((*id, "consts".to_string(), op_struct.clone(), "null".to_string()));
            meta.push((op_name.clone(), text.clone(), "consts"));
            // what `build_query(variables)` itself returns: the three members, `query` the document, `operationName` the name
            reqs.push((*id, "vars".to_string(), op_struct.clone(), assignment.clone()));
            meta.push((op_name.clone(), text.clone(), "body"));
        }
        let replies = run_consumer(&exe, &reqs);
        for ((op_name, text, what), raw) in meta.iter().zip(replies.iter()) {
            if *what == "body" {
                rep.case(Some(&format!("compiled-body|{}|{}", op_name, text.len())));
                rep.count("compiled:build_query-body");
                match parse_reply(raw) {
                    Reply::Ok(body) => {
                        let mut keys: Vec<String> = body.as_object().map(|m| m.keys().cloned().collect()).unwrap_or_default();
                        keys.sort();
                        if keys != ["operationName", "query", "variables"] {
                            rep.fail("request-body-members", json!({"operation": op_name, "members": keys}));
                        }
                        if body["operationName"] != json!(op_name) {
                            rep.fail("operation-name-in-body", json!({"expected": op_name, "got": body["operationName"]}));
                        }
                        if body["query"] != json!(text) {
                            rep.fail("query-in-body-not-verbatim", json!({"operation": op_name, "expected_len": text.len(), "got": body["query"]}));
                        }
                    }
                    // (whether the assignment is expressible is C04's question)
                    Reply::Err(_) => rep.count("compiled:build_query-body:assignment-refused"),
                    Reply::Other(o) => rep.internal.push(format!("body reply: {}", o)),
                }
                continue;
            }
            rep.case(Some(&format!("compiled-consts|{}|{}", op_name, text.len())));
            rep.count("compiled:consts");
            match parse_reply(raw) {
                Reply::Ok(v) => {
                    if v[0] != json!(op_name) {
                        rep.fail("operation-name-constant", json!({"compiled": true, "expected": op_name, "got": v[0]}));
                    }
                    if v[1] != json!(text) {
                        rep.fail("query-constant-not-verbatim", json!({"compiled": true, "expected": text, "got": v[1]}));
                    }
                }
                _ => rep.internal.push(format!("consts reply: {}", raw)),
            }
        }
    }
    remove_consumer(&build);
    rep.extra.insert("compiled_modules".into(), json!(build.compiled.len()));
    rep.extra.insert("model_requests".into(), json!(ctx.model.requests));
    rep.finish()
}
