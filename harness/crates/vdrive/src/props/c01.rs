//! C01 — every spec-conforming response deserializes losslessly into ResponseData.
//! C03 — generated response types reject what the schema forbids.
//! Both run on the same compiled universe; which one is reported is chosen by `prop`.
use super::wire::*;
use serde_json::{json, Value};
use vcore::gen::op::*;
use vcore::gen::rng::Rng;
use vcore::gen::schema::*;
use vcore::report::*;

pub fn run(a: &Args, prop: &str) -> i32 {
    let rule = if prop == "C01" {
        "random (schema, document, options) cases compiled into a consumer crate x conforming payloads generated from the GraphQL execution semantics (each possible runtime type at abstract positions, null / non-null at nullable positions, list lengths 0/1/2/n, scalar boundary values, ID as string or integer); a case = one payload deserialized into ResponseData and re-serialized by the compiled code; non-trivial = the payload has an abstract position, a list, a null or an integer ID; distinct by (case, payload)"
    } else {
        "the same compiled universe x every single-point corruption of conforming payloads (null / missing at non-null positions, non-list for list, wrong scalar kind per leaf type, object replaced by a scalar, unknown / non-string / deleted / swapped __typename at abstract positions) x fragments_other_variant in {off, on}; a case = one corrupted payload; non-trivial = the corruption is below the root object; distinct by (case, corrupted payload)"
    };
    let mut rep = Report::new(prop, a, rule);
    let mut rng = Rng::new(a.seed);
    let n_cases = if rep.thorough() { 300 } else { 40 };
    let payloads_per_op = if rep.thorough() { 40 } else { 12 };
    let corruptions_per_payload = if rep.thorough() { 60 } else { 25 };
    // C03 only takes the fixed case that must hold (an implementor declared by `extend type .. implements ..`)
    let corpus = if prop == "C01" { c01_corpus() } else { c01_corpus().into_iter().filter(|(s, d)| c01_finding_class_op(s, d, None).is_none()).collect() };
    let n_corpus = corpus.len();
    let mut corpus_opts = 0;
    let mut u = build_universe_with(&mut rep, &mut rng, &prop.to_lowercase(), n_cases, &SchemaKnobs::default(), &OpKnobs::default(), |rng, s| {
        corpus_opts += 1;
        if corpus_opts <= n_corpus { vcore::common::Opts::harness() } else { default_opts(rng, s) }
    }, corpus);
    let exe = match u.build.exe.clone() {
        Some(e) => e,
        None => {
            rep.internal.push("no consumer executable".into());
            return rep.finish();
        }
    };
    // generate vectors
    struct Vector {
        case: usize,
        module: usize,
        op: String,
        payload: Value,
        expected: Option<Value>,
        /// the same with `__typename` kept at object positions (allowed, not demanded)
        expected_alt: Option<Value>,
        corruption: Option<Corruption>,
        nontrivial: bool,
    }
    let mut vectors: Vec<Vector> = Vec::new();
    for c in &u.cases {
        if !c.compiled {
            continue;
        }
        let pg = PayloadGen { s: &c.schema, doc: &c.doc, deny_deprecated: c.opts.deprecation == "deny", max_list: 3, depth_budget: 5, absent_percent: if prop == "C01" { 35 } else { 0 } };
        for (mi, op) in c.doc.ops.iter().enumerate() {
            if mi >= c.modules.len() {
                break;
            }
            let op_struct = c.modules[mi].sexp.items()[8].as_str().unwrap_or("").to_string();
            for _ in 0..payloads_per_op {
                let mut st = PayloadStats::default();
                let payload = pg.response(&mut rng, op, &mut st);
                let nontrivial = st.abstract_positions > 0 || st.lists > 0 || st.nulls > 0 || st.int_ids > 0;
                if prop == "C01" {
                    let expected = pg.expected(op, &payload);
                    rep.count_n("payload:abstract_positions", st.abstract_positions as u64);
                    rep.count_n("payload:lists", st.lists as u64);
                    rep.count_n("payload:nulls", st.nulls as u64);
                    rep.count_n("payload:absent_nullable_keys", st.absent as u64);
                    rep.count_n("payload:integer_ids", st.int_ids as u64);
                    rep.count_n("payload:objects", st.objects as u64);
                    let expected_alt = pg.expected_keeping_object_typename(op, &payload);
                    vectors.push(Vector { case: c.id, module: mi, op: op_struct.clone(), payload, expected: Some(expected), expected_alt: Some(expected_alt), corruption: None, nontrivial });
                } else {
                    let mut cs = pg.corruptions(op, &payload, c.opts.other_variant);
                    rng.shuffle(&mut cs);
                    // "a known __typename always selects its own variant": the uncorrupted payload itself, when it has
                    // abstract positions (cases in a known-finding class of C01 are left to C01)
                    if st.abstract_positions > 0 && c01_finding_class_op(&c.schema, &c.doc, Some(op)).is_none() {
                        cs.insert(0, Corruption { kind: "none/known-typename", path: String::new(), payload: payload.clone(), must_accept: Some(true), expect_typename: None });
                    }
                    for cor in cs.into_iter().take(corruptions_per_payload) {
                        let nontrivial = cor.path.matches('/').count() > 1;
                        vectors.push(Vector { case: c.id, module: mi, op: op_struct.clone(), payload: cor.payload.clone(), expected: None, expected_alt: None, corruption: Some(cor), nontrivial });
                    }
                }
            }
        }
    }
    let mut requests: Vec<(usize, String, String, String)> =
        vectors.iter().map(|v| (v.case, "de".to_string(), v.op.clone(), serde_json::to_string(&v.payload).unwrap())).collect();
    // every fifth conforming payload also inside the envelope `Response<ResponseData>` of the runtime crate (`{"data": …}`,
    // with and without an `errors` member): what comes back as `data` must be what came back without the envelope
    let enveloped: Vec<usize> = vectors.iter().enumerate().filter(|(i, v)| v.corruption.is_none() && i % 5 == 0).map(|(i, _)| i).collect();
    for &i in &enveloped {
        let v = &vectors[i];
        let body = if i % 2 == 0 { json!({"data": v.payload}) } else { json!({"errors": [{"message": "partial", "path": ["x", 1]}], "data": v.payload, "extensions": {"k": [1, "two"]}}) };
        requests.push((v.case, "env".to_string(), v.op.clone(), body.to_string()));
    }
    let n_direct = vectors.len();
    let replies = vcore::consumer::run_consumer(&exe, &requests);
    for (k, &i) in enveloped.iter().enumerate() {
        let (direct, env) = (parse_reply(&replies[i]), parse_reply(&replies[n_direct + k]));
        let v = &vectors[i];
        let c = &u.cases[v.case];
        rep.count("payload:inside-response-envelope");
        let same = match (&direct, &env) {
            (Reply::Ok(_), Reply::Ok(e)) if c.no_serialize => e.is_null(),
            (Reply::Ok(d), Reply::Ok(e)) => drop_nulls(&canon_numbers(&e["data"])) == drop_nulls(&canon_numbers(d)),
            (Reply::Err(_), Reply::Err(_)) => true,
            _ => false,
        };
        if !same {
            rep.fail("response-envelope-changes-the-data", json!({"schema": c.sdl, "query": c.qtext, "operation": v.op, "payload": v.payload,
                "without_envelope": replies[i], "inside_envelope": replies[n_direct + k]}));
        }
    }
    for (v, raw) in vectors.iter().zip(replies.iter()) {
        let reply = parse_reply(raw);
        let c = &u.cases[v.case];
        let key = format!("{}|{}|{}", v.case, v.op, v.payload);
        rep.case(if v.nontrivial { Some(&key) } else { None });
        let case_json = |extra: Value| {
            json!({"schema": c.sdl, "query": c.qtext, "options": c.opts.describe(), "operation": v.op, "payload": v.payload,
                   "implementation_reply": raw, "detail": extra})
        };
        // property oracle on the implementation
        match (&v.corruption, &reply) {
            (None, Reply::Ok(_)) if c.no_serialize => rep.count("accepted_without_reserialization"),
            (None, Reply::Ok(reser)) => {
                let got = drop_nulls(&canon_numbers(reser));
                let want = v.expected.clone().unwrap_or(Value::Null);
                if got != want && Some(&got) != v.expected_alt.as_ref() {
                    let class = c01_finding_class_op(&c.schema, &c.doc, c.doc.ops.get(v.module)).unwrap_or("conforming-payload-not-preserved");
                    rep.fail(class, case_json(json!({"expected_reserialization": want, "got": got})));
                }
            }
            (None, Reply::Err(e)) => {
                let class = c01_finding_class_op(&c.schema, &c.doc, c.doc.ops.get(v.module)).unwrap_or("conforming-payload-rejected");
                rep.fail(class, case_json(json!({"error": e})))
            }
            (None, Reply::Other(o)) => rep.internal.push(format!("consumer reply: {}", o)),
            (Some(cor), r) => {
                rep.count(&format!("corruption:{}", cor.kind.split('/').next().unwrap_or("")));
                let accepted = matches!(r, Reply::Ok(_));
                match cor.must_accept {
                    Some(false) if accepted => rep.fail(&format!("corrupted-payload-accepted:{}", cor.kind), case_json(json!({"corruption": cor.kind, "at": cor.path}))),
                    Some(true) if !accepted && cor.kind == "none/known-typename" => rep.fail("known-typename-rejected", case_json(json!({"corruption": cor.kind}))),
                    Some(true) if !accepted => rep.fail(&format!("unknown-typename-rejected-with-other-variant:{}", cor.kind), case_json(json!({"corruption": cor.kind, "at": cor.path}))),
                    _ => {}
                }
                if let (Some((ptr, tn)), Reply::Ok(reser), false) = (&cor.expect_typename, r, c.no_serialize) {
                    let got = reser.pointer(&format!("{}/__typename", ptr)).and_then(|x| x.as_str()).unwrap_or("<absent>");
                    if got != tn {
                        rep.fail("known-typename-selected-another-variant", case_json(json!({"at": ptr, "tag": tn, "reserialized_tag": got})));
                    }
                }
                if cor.kind == "unknown-typename" && accepted && c.opts.other_variant && !c.no_serialize {
                    if let Reply::Ok(reser) = r {
                        let got = reser.pointer(&cor.path).and_then(|x| x.as_str()).unwrap_or("<absent>");
                        if got != "Unknown" {
                            rep.fail("unknown-typename-not-mapped-to-Unknown", case_json(json!({"at": cor.path, "reserialized_tag": got})));
                        }
                    }
                }
                if let Reply::Other(o) = r {
                    rep.internal.push(format!("consumer reply: {}", o));
                }
            }
        }
        // tie with the serde model on the extracted IR
        let m = model_rt(&mut u.ctx.model, env_id(v.case, v.module), "ResponseData", &v.payload);
        let m = if c.no_serialize && m.head() == Some("ok") { vcore::sexp::tagged("ok", vec![vcore::ast2sexp::json_sexp(&Value::Null)]) } else { m };
        match tie(&reply, &m) {
            None => rep.traces_validated += 1,
            Some(d) => rep.disagree(case_json(json!({"what": "serde model", "difference": d}))),
        }
        if rep.samples.len() < 4 && v.nontrivial && rep.evaluations % 97 == 3 {
            rep.sample(json!({"operation": v.op, "payload": v.payload, "corruption": v.corruption.as_ref().map(|c| c.kind), "reply": raw.chars().take(200).collect::<String>()}));
        }
    }
    let not_compiling: Vec<Value> = u.cases.iter().filter(|c| !c.compiled).take(10)
        .map(|c| json!({"errors": c.compile_errors.iter().take(4).collect::<Vec<_>>(), "query": c.qtext, "options": c.opts.describe()})).collect();
    rep.extra.insert("not_compiling".into(), json!(not_compiling));
    rep.extra.insert("model_requests".into(), json!(u.ctx.model.requests));
    // the derive / CLI entry point reads files: one query file with two schemas, names differing in a non-UTF-8 byte
    path_entry_sequence(&mut rep, &u.ctx);
    finish_universe(u);
    rep.finish()
}
