mod props;

use vcore::common::*;
use vcore::{model, report};

fn irtest(args: &[String]) {
    let schema_path = std::path::PathBuf::from(&args[0]);
    let query_text = std::fs::read_to_string(&args[1]).unwrap();
    let schema_text = std::fs::read_to_string(&schema_path).unwrap();
    let is_json = schema_path.extension().map(|e| e == "json").unwrap_or(false);
    let mut opts = Opts::harness();
    for a in &args[2..] {
        match a.as_str() {
            "rust" => opts.normalization_rust = true,
            "other" => opts.other_variant = true,
            "skip" => opts.skip_none = true,
            "deny" => opts.deprecation = "deny",
            "allow" => opts.deprecation = "allow",
            _ => {}
        }
    }
    quiet_panics();
    let real = run_real(&schema_path, &query_text, &opts);
    let mut model = model::Model::spawn();
    let src = schema_src_sexp(&schema_text, is_json).unwrap();
    let m = run_model(&mut model, &src, &schema_text, &query_text, &opts);
    if let RealOutcome::Ok(t) = &real {
        match vcore::extract::default_bodies(t) {
            Ok(ms) => {
                for (m, fns) in ms {
                    for (f, b) in fns {
                        println!("default body {}::{} = {}", m, f, b.render());
                    }
                }
            }
            Err(e) => println!("default bodies: {}", e),
        }
    }
    match compare_outcome(&real, &m) {
        Ok(()) => println!("AGREE ({})", real.kind()),
        Err(d) => {
            println!("DISAGREE:");
            for x in d {
                println!("  {}", x);
            }
        }
    }
}

fn main() {
    let args: Vec<String> = std::env::args().skip(1).collect();
    match args.first().map(|s| s.as_str()) {
        Some("irtest") => irtest(&args[1..]),
        Some("C01") => std::process::exit(props::c01::run(&report::parse_args(&args[1..]), "C01")),
        Some("C03") => std::process::exit(props::c01::run(&report::parse_args(&args[1..]), "C03")),
        Some("C04") => std::process::exit(props::c04::run(&report::parse_args(&args[1..]))),
        Some("C05") => std::process::exit(props::c05::run(&report::parse_args(&args[1..]))),
        Some("C06") => std::process::exit(props::c06::run(&report::parse_args(&args[1..]))),
        Some("C07") => std::process::exit(props::c07::run(&report::parse_args(&args[1..]))),
        Some("C14") => std::process::exit(props::c14::run(&report::parse_args(&args[1..]))),
        Some("C16") => std::process::exit(props::c16::run(&report::parse_args(&args[1..]))),
        Some("C17") => std::process::exit(props::c17::run(&report::parse_args(&args[1..]))),
        Some("--c17-worker") => props::c17::worker(&args[1..]),
        Some("C09") => std::process::exit(props::c09::run(&report::parse_args(&args[1..]))),
        Some("C10") => std::process::exit(props::c10::run(&report::parse_args(&args[1..]))),
        Some("C11") => std::process::exit(props::c11::run(&report::parse_args(&args[1..]))),
        Some("C12") => std::process::exit(props::c12::run(&report::parse_args(&args[1..]))),
        Some("C02") => std::process::exit(props::c02::run(&report::parse_args(&args[1..]))),
        Some("C13") => std::process::exit(props::c13::run(&report::parse_args(&args[1..]))),
        _ => {
            eprintln!("usage: vdrive <cmd> ..");
            std::process::exit(2)
        }
    }
}
