//! Client of the Lean model driver `gqlmodel` (one S-expression request per line, one reply per line).
use crate::sexp::Sexp;
use std::io::{BufRead, BufReader, Write};
use std::process::{Child, ChildStdin, ChildStdout, Command, Stdio};

pub struct Model {
    child: Child,
    stdin: ChildStdin,
    stdout: BufReader<ChildStdout>,
    pub requests: u64,
}

pub fn model_path() -> String {
    std::env::var("GQLMODEL").unwrap_or_else(|_| "/verif/lean/.lake/build/bin/gqlmodel".to_string())
}

impl Model {
    pub fn spawn() -> Model {
        let mut child = Command::new(model_path())
            .stdin(Stdio::piped())
            .stdout(Stdio::piped())
            .spawn()
            .unwrap_or_else(|e| panic!("cannot start model driver {}: {}", model_path(), e));
        let stdin = child.stdin.take().unwrap();
        let stdout = BufReader::new(child.stdout.take().unwrap());
        Model { child, stdin, stdout, requests: 0 }
    }

    pub fn ask(&mut self, req: &Sexp) -> Sexp {
        self.requests += 1;
        let line = req.render();
        self.stdin.write_all(line.as_bytes()).unwrap();
        self.stdin.write_all(b"\n").unwrap();
        self.stdin.flush().unwrap();
        let mut reply = String::new();
        self.stdout.read_line(&mut reply).unwrap();
        if reply.is_empty() {
            panic!("model driver died on request: {}", req.short(400));
        }
        Sexp::parse(reply.trim_end_matches('\n'))
            .unwrap_or_else(|| panic!("unparsable model reply: {}", reply))
    }
}

impl Drop for Model {
    fn drop(&mut self) {
        let _ = self.child.kill();
        let _ = self.child.wait();
    }
}
