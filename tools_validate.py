#!/usr/bin/env python3
"""validate MANIFEST.json and evidence/*.json against the task schemas (uses the tooling venv)"""
import json, sys, glob, jsonschema
ok = True
m = json.load(open('/verif/MANIFEST.json'))
try:
    jsonschema.validate(m, json.load(open('/root/.vp/MANIFEST.schema.json')))
    print('MANIFEST ok:', len(m['checks']), 'checks,', len(m.get('not_applicable', [])), 'not_applicable')
except Exception as e:
    ok = False; print('MANIFEST INVALID', str(e)[:300])
sch = json.load(open('/root/.vp/EVIDENCE.schema.json'))
for p in sorted(glob.glob('/verif/evidence/*.json')):
    try:
        ev = json.load(open(p)); jsonschema.validate(ev, sch)
        print(p, 'ok', ev['level'], ev['coverage'].get('obligations'), ev['coverage'].get('discharged'), ev['coverage'].get('evaluations'))
    except Exception as e:
        ok = False; print(p, 'INVALID', str(e)[:300])
sys.exit(0 if ok else 1)
