#!/usr/bin/env python3
"""add / replace a check entry in MANIFEST.json:  tools_manifest.py Cxx 'level text' 'level note' 'technique' [category]"""
import json, sys
pid, text, note, technique = sys.argv[1:5]
category = sys.argv[5] if len(sys.argv) > 5 else "proof"
m = json.load(open('/verif/MANIFEST.json'))
m['checks'] = [c for c in m['checks'] if c['property_id'] != pid]
m['checks'].append({
    "property_id": pid, "quick_cmd": f"./check {pid} --tier quick", "thorough_cmd": f"./check {pid} --tier thorough",
    "evidence_file": f"/verif/evidence/{pid}.json", "replay_cmd_template": f"./check {pid} --replay {{path}}",
    "engine": "lean-model",
    "level_claimed": {"category": category, "text": text, "design_ref": f"DESIGN.md §5 {pid}"},
    "level_note": note, "technique": technique})
m['checks'].sort(key=lambda c: c['property_id'])
m['not_applicable'] = [n for n in m.get('not_applicable', []) if n['property_id'] != pid]
json.dump(m, open('/verif/MANIFEST.json', 'w'), indent=1)
print("manifest:", [c['property_id'] for c in m['checks']])
