#!/usr/bin/env python3
"""Run the registered quick checks against seeded property-breaking patches.
usage: tools_seeded.py <dir-with-patches> [Cxx-n ...]   (applies each patch to /repo, runs ./check, restores /repo)"""
import json, os, subprocess, sys, time, glob
root = sys.argv[1]
only = sys.argv[2:]
# SEEDED_VERIF: run the checks of a snapshot copy of /verif (so that /verif can be edited meanwhile); results then go to
# SEEDED_OUT (merge them into /verif/seeded/RESULTS.json with `tools_seeded.py --merge <file>`)
VERIF = os.environ.get('SEEDED_VERIF', '/verif')
out_path = os.environ.get('SEEDED_OUT', '/verif/seeded/RESULTS.json')   # committed: latest result per seeded change + history of earlier runs
if root == '--merge':
    cur = json.load(open('/verif/seeded/RESULTS.json'))
    new = json.load(open(sys.argv[2]))
    for k, v in new.items():
        if k in cur and cur[k].get('at') != v.get('at'):
            old = cur[k]
            v['history'] = old.get('history', []) + ([{'status': old['status'], 'classes': old.get('classes', []), 'at': old.get('at')}] if old.get('status') else [])
        cur[k] = v
    json.dump(cur, open('/verif/seeded/RESULTS.json', 'w'), indent=1)
    print('merged', len(new)); sys.exit(0)
try:
    results = json.load(open(out_path))
except Exception:
    results = {}
def sh(cmd, **kw):
    return subprocess.run(cmd, shell=True, stdout=subprocess.PIPE, stderr=subprocess.STDOUT, text=True, **kw)
assert sh('git -C /repo status --porcelain').stdout.strip() == '', '/repo not clean'
for d in sorted(glob.glob(os.path.join(root, 'C??-?'))):
    name = os.path.basename(d)
    if only and name not in only:
        continue
    prop = name.split('-')[0]
    patch = os.path.join(d, 'patch.diff')
    if not os.path.exists(patch):
        continue
    r = sh(f'git -C /repo apply --check {patch}')
    how = 'apply'
    if r.returncode != 0:
        r3 = sh(f'git -C /repo apply --3way {patch}')
        if r3.returncode != 0 or 'conflict' in r3.stdout.lower():
            sh('git -C /repo reset -q ; git -C /repo checkout -- . ; git -C /repo clean -fdq')
            results[name] = {'history': results.get(name, {}).get('history', []), 'status': 'patch-does-not-apply', 'detail': (r.stdout + r3.stdout)[-400:]}
            print(name, 'patch does not apply'); continue
        sh('git -C /repo reset -q')
        how = '3way'
    else:
        sh(f'git -C /repo apply {patch}')
    t0 = time.time()
    c = sh(f'cd {VERIF} && ./check {prop} --tier quick', timeout=3600)
    lines = [l for l in c.stdout.split('\n') if l.startswith('VIOLATION') or l.startswith('BROKEN') or l.startswith('INTERNAL') or l.startswith('KNOWN-FINDING')]
    classes = []
    for l in lines:
        if l.startswith('VIOLATION') and 'replay=' in l:
            p = l.split('replay=')[1].split()[0]
            try:
                rj = json.load(open(p)); classes.append(rj.get('class') or rj.get('kind'))
            except Exception:
                pass
    hist = results.get(name, {}).get('history', [])
    if name in results and results[name].get('status'):
        hist = hist + [{'status': results[name]['status'], 'classes': results[name].get('classes', []), 'at': results[name].get('at')}]
    results[name] = {'history': hist, 'at': time.strftime('%Y-%m-%dT%H:%M:%S'), 'status': 'detected' if c.returncode == 1 else ('internal' if c.returncode == 2 else 'MISSED'), 'rc': c.returncode, 'how': how,
                     'classes': sorted(set(x for x in classes if x)), 'lines': lines[:6], 'tail': c.stdout.strip().split('\n')[-1], 'wall_s': round(time.time() - t0)}
    print(name, results[name]['status'], results[name]['classes'], results[name]['tail'])
    sh('git -C /repo checkout -- . ; git -C /repo clean -fdq')
    json.dump(results, open(out_path, 'w'), indent=1)
assert sh('git -C /repo status --porcelain').stdout.strip() == '', '/repo not clean at the end'
